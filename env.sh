# sourced by every script of the framework: offline Go toolchain able to build /repo (go 1.25.12)
export PATH=/root/go/pkg/mod/golang.org/toolchain@v0.0.1-go1.25.12.linux-amd64/bin:$PATH
export GOTOOLCHAIN=local GOFLAGS=-mod=mod GOPROXY=off GOSUMDB=off
