// Assumed contracts of the PD client (trusted): what GetTS returns is a timestamp issued by PD, with parts
// in the range for which ComposeTS does not overflow. `issued` is the ghost predicate of package oracle.

package external

//@ package github.com/tikv/pd/client

//@ func (Client) GetTS
//@   trusted
//@   modifies nothing
//@   ensures result2 == nil ==> inRangePL(result0, result1) && issued(tsOf(result0, result1))

//@ func (Client) GetMinTS
//@   trusted
//@   modifies nothing
//@   ensures result2 == nil ==> inRangePL(result0, result1)

//@ package github.com/tikv/pd/client/clients/tso

//@ func (TSFuture) Wait
//@   trusted
//@   modifies nothing
//@   ensures result2 == nil ==> inRangePL(result0, result1) && issued(tsOf(result0, result1))

// Region lookups of PD (assumed): GetRegion answers the region that contains the key; GetPrevRegion answers the region
// that ends at the key (the one holding the greatest key below it). Keys are abstract in the contracts that use these.
//@ package github.com/tikv/pd/client

//@ func (Client) GetRegion
//@   trusted
//@   modifies nothing
//@   ensures result1 == nil && result0 != nil && result0.Meta != nil ==> result0.Meta.StartKey <= key && (result0.Meta.EndKey == "" || key < result0.Meta.EndKey)

//@ func (Client) GetPrevRegion
//@   trusted
//@   modifies nothing
//@   ensures result1 == nil && result0 != nil && result0.Meta != nil ==> result0.Meta.StartKey < key && result0.Meta.EndKey == key

// The timestamp oracle's expiry clock (assumed): UntilExpired answers <= 0 once the lock's time-to-live has elapsed on
// this oracle's clock; the ghost flag sawExpired of package txnlock records that such an answer was given.
//@ package github.com/tikv/client-go/v2/oracle
//@ func (Oracle) UntilExpired
//@   trusted
//@   modifies Oracle.sawExpired of recv
//@   ensures result <= 0 ==> recv.sawExpired
//@   ensures result > 0 ==> recv.sawExpired == old(recv.sawExpired)

// An issued timestamp is never the maximum timestamp (assumed: the maximum is reserved as "read the latest" / "expire now").
//@ func (Oracle) GetLowResolutionTimestamp
//@   trusted
//@   modifies nothing
//@   ensures result1 == nil ==> result0 < 18446744073709551615

// A read-timestamp validator accepts or refuses a (timestamp, stale flag) pair; tsAccepted names its verdict (assumed
// deterministic within one send; used by internal/locate to state that no read command skips the validation).
//@ spec func tsAccepted(v ReadTSValidator, ts uint64, stale bool) bool
//@ func (ReadTSValidator) ValidateReadTS
//@   trusted
//@   modifies nothing
//@   ensures (result == nil) == tsAccepted(recv, readTS, isStaleRead)
