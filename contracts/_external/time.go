// Assumed contracts of time.Timer as far as the time-out discipline of a batched call uses it (C18). Ghost field
// Timer.arms counts how often the timer was armed (NewTimer arms it once, every Reset once more); Timer.dur is the
// duration it was last armed with.

package external

//@ package time

//@ ghost field Timer.arms int
//@ ghost field Timer.dur int64
//@ func NewTimer
//@   trusted
//@   modifies nothing
//@   ensures result != nil && fresh(result) && result.arms == 1 && result.dur == mathint(d)
//@ func (*Timer) Reset
//@   trusted
//@   modifies Timer.arms of t, Timer.dur of t
//@   ensures t.arms == old(t.arms) + 1 && t.dur == mathint(d)
//@ func (*Timer) Stop
//@   trusted
//@   modifies nothing
