// Assumed contract of context.WithoutCancel: the result is a function of the parent (it keeps the parent's values) that is
// never cancelled by the parent - named detachedOf(parent) in contracts; the call changes nothing.

package external

//@ package context

//@ spec func detachedOf(parent context.Context) context.Context
//@ func WithoutCancel
//@   trusted
//@   pure
//@   ensures result == detachedOf(parent)
