// Assumed contracts of encoding/binary's varint functions (trusted, not verified): the encoder writes an
// image that depends only on the value; the decoder inverts exactly that image. The image itself is left
// uninterpreted (uvLen/uvByte, vLen/vByte) - client-go's wrappers are verified against this inverse-pair
// assumption only.

package external

//@ package encoding/binary

//@ spec func uvLen(v uint64) int
//@ spec func uvByte(v uint64, i int) int
//@ spec func vLen(v int64) int
//@ spec func vByte(v int64, i int) int
//@ spec func isUv(b []byte, at int, v uint64) bool { return forall j int :: at <= j && j < at + uvLen(v) ==> mathint(b[j]) == uvByte(v, j - at) }
//@ spec func isV(b []byte, at int, v int64) bool { return forall j int :: at <= j && j < at + vLen(v) ==> mathint(b[j]) == vByte(v, j - at) }

//@ func PutUvarint
//@   trusted
//@   modifies elems(byte) of buf
//@   ensures result == uvLen(x) && 1 <= result && result <= 10
//@   ensures isUv(buf, 0, x)

//@ func PutVarint
//@   trusted
//@   modifies elems(byte) of buf
//@   ensures result == vLen(x) && 1 <= result && result <= 10
//@   ensures isV(buf, 0, x)

//@ func Uvarint
//@   trusted
//@   pure
//@   ensures result1 <= len(buf)
//@   ensures forall v uint64 :: len(buf) >= uvLen(v) && isUv(buf, 0, v) ==> result0 == v && result1 == uvLen(v)
//@   ensures forall v uint64 :: 1 <= uvLen(v) && uvLen(v) <= 10

//@ func Varint
//@   trusted
//@   pure
//@   ensures result1 <= len(buf)
//@   ensures forall v int64 :: len(buf) >= vLen(v) && isV(buf, 0, v) ==> result0 == v && result1 == vLen(v)
//@   ensures forall v int64 :: 1 <= vLen(v) && vLen(v) <= 10
