// Assumed contracts of the standard library's sync.Map as far as request dispatch uses it (C18): a successful Load
// answers the value currently stored under the key, as a function smVal of the map and the key at that moment. Nothing is
// said about concurrent stores (functions are verified sequentially).

//@ package sync
//@ spec func smVal(m *Map, k any) any
//@ func (*Map) Load
//@   trusted
//@   modifies nothing
//@   ensures result1 ==> result0 == smVal(m, key) && result0 != nil

//@ ghost field Map.puts int
//@ func (*Map) Store
//@   trusted
//@   modifies Map.puts of m
//@   ensures m.puts == old(m.puts) + 1

//@ func (*Map) Delete
//@   trusted
//@   modifies nothing
