// Assumed contract of google.golang.org/grpc/status.Code: the status code of an error is a function of the error value
// (two calls on the same error agree) and the call changes nothing.

package external

//@ package google.golang.org/grpc/status

//@ func Code
//@   trusted
//@   pure
