// Assumed contracts of goleveldb's write batch and database handle (trusted), with two ghost fields that let the
// contracts of the mock store say "what was put into a batch was handed to the database":
//   Batch.n       - number of records appended to the batch so far
//   Batch.written - the batch was passed to DB.Write, which succeeded
//   Batch.puts    - number of those records that write a value (Put), as opposed to removing a key (Delete)

package external

//@ package github.com/pingcap/goleveldb/leveldb

//@ ghost field Batch.n int
//@ ghost field Batch.written bool
//@ ghost field Batch.puts int

//@ func (*Batch) Put
//@   trusted
//@   modifies Batch.n of b, Batch.puts of b
//@   ensures b.n == old(b.n) + 1 && b.puts == old(b.puts) + 1

//@ func (*Batch) Delete
//@   trusted
//@   modifies Batch.n of b
//@   ensures b.n == old(b.n) + 1

//@ func (*DB) Write
//@   trusted
//@   modifies Batch.written of batch
//@   ensures result == nil ==> batch.written
//@   ensures result != nil ==> batch.written == old(batch.written)
