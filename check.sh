#!/bin/sh
# usage: ./check.sh <property id> [quick|thorough]   |   ./check.sh --replay <file>
# Exit 0: every obligation of the property discharged on /repo's current working tree.
# Exit 1: "VIOLATION property=<id> replay=<path>" lines were printed.
cd "$(dirname "$0")"
. ./env.sh
if [ ! -x bin/gocv ] || [ -n "$(find gocv -name '*.go' -newer bin/gocv 2>/dev/null | head -1)" ]; then
  ./setup.sh >/dev/null || { echo "setup failed"; exit 2; }
fi
if [ "$1" = "--replay" ]; then
  exec ./bin/gocv replay "$2"
fi
tier="${2:-${VERIF_TIER:-quick}}"
exec ./bin/gocv check -prop "$1" -tier "$tier"
