#!/bin/sh
# usage: tools/confirm_seed.sh <seed dir with patch.diff demo_test.go meta.json> <package dir relative to repo> <name under /verif/seeded> <test packages...>
# Confirms in a scratch worktree: builds, existing tests of the given packages pass with the change, the demo fails with it and passes without.
set -u
. /verif/env.sh
src=$1; pkg=$2; name=$3; shift 3
wt=/tmp/confirm-$$
git -C /repo worktree add -q $wt HEAD || exit 2
res="ok"
( cd $wt && git apply $src/patch.diff ) || res="patch-does-not-apply"
if [ "$res" = ok ]; then
  ( cd $wt && go build ./... ) >/tmp/confirm-$$.log 2>&1 || res="build-fails"
fi
if [ "$res" = ok ]; then
  ( cd $wt && go test -vet=off -count=1 -timeout 20m "$@" ) >>/tmp/confirm-$$.log 2>&1 || res="existing-tests-fail"
fi
if [ "$res" = ok ]; then
  cp $src/demo_test.go $wt/$pkg/zz_seed_demo_test.go
  if ( cd $wt/$pkg && go test -vet=off -count=1 -timeout 10m -run 'Seed|seed|Demo|demo' . ) >>/tmp/confirm-$$.log 2>&1; then res="demo-does-not-fail-with-change"; fi
fi
if [ "$res" = ok ]; then
  ( cd $wt && git apply -R $src/patch.diff )
  ( cd $wt/$pkg && go test -vet=off -count=1 -timeout 10m -run 'Seed|seed|Demo|demo' . ) >>/tmp/confirm-$$.log 2>&1 || res="demo-fails-without-change"
fi
git -C /repo worktree remove --force $wt
echo "$name: $res"
if [ "$res" = ok ]; then
  mkdir -p /verif/seeded/$name
  cp $src/patch.diff $src/demo_test.go $src/meta.json /verif/seeded/$name/
else
  tail -20 /tmp/confirm-$$.log
fi
rm -f /tmp/confirm-$$.log
