#!/usr/bin/env python3
# Generates the per-command postconditions of codecV2.EncodeRequest (property C15) from a table of the key-bearing fields
# of every request message (taken from the kvrpcpb message definitions, not from the code under contract).
# Usage: tools/gen_c15_encode_contract.py  -> prints //@ lines to paste into internal/apicodec/zz_contracts_verif.go
TABLE = [
 # (Cmd constant, message type, [(field, kind)])   kind: key | optkey | keys | muts | pairs | range(start,end[,reverseField]) | krange | kranges
 ("CmdGet", "GetRequest", [("Key", "key")]),
 ("CmdScan", "ScanRequest", [(("StartKey", "EndKey", "Reverse"), "range")]),
 ("CmdPrewrite", "PrewriteRequest", [("Mutations", "muts"), ("PrimaryLock", "key"), ("Secondaries", "keys")]),
 ("CmdCommit", "CommitRequest", [("Keys", "keys"), ("PrimaryKey", "optkey")]),
 ("CmdCleanup", "CleanupRequest", [("Key", "key")]),
 ("CmdBatchGet", "BatchGetRequest", [("Keys", "keys")]),
 ("CmdBatchRollback", "BatchRollbackRequest", [("Keys", "keys")]),
 ("CmdScanLock", "ScanLockRequest", [(("StartKey", "EndKey", None), "range")]),
 ("CmdResolveLock", "ResolveLockRequest", [("Keys", "keys")]),
 ("CmdDeleteRange", "DeleteRangeRequest", [(("StartKey", "EndKey", None), "range")]),
 ("CmdPessimisticLock", "PessimisticLockRequest", [("Mutations", "muts"), ("PrimaryLock", "key")]),
 ("CmdPessimisticRollback", "PessimisticRollbackRequest", [("Keys", "keys")]),
 ("CmdTxnHeartBeat", "TxnHeartBeatRequest", [("PrimaryLock", "key")]),
 ("CmdCheckTxnStatus", "CheckTxnStatusRequest", [("PrimaryKey", "key")]),
 ("CmdCheckSecondaryLocks", "CheckSecondaryLocksRequest", [("Keys", "keys")]),
 ("CmdFlush", "FlushRequest", [("Mutations", "muts"), ("PrimaryKey", "optkey")]),
 ("CmdBufferBatchGet", "BufferBatchGetRequest", [("Keys", "keys")]),
 ("CmdFlashbackToVersion", "FlashbackToVersionRequest", [(("StartKey", "EndKey", None), "range")]),
 ("CmdPrepareFlashbackToVersion", "PrepareFlashbackToVersionRequest", [(("StartKey", "EndKey", None), "range")]),
 ("CmdRawGet", "RawGetRequest", [("Key", "key")]),
 ("CmdRawBatchGet", "RawBatchGetRequest", [("Keys", "keys")]),
 ("CmdRawPut", "RawPutRequest", [("Key", "key")]),
 ("CmdRawBatchPut", "RawBatchPutRequest", [("Pairs", "pairs")]),
 ("CmdRawDelete", "RawDeleteRequest", [("Key", "key")]),
 ("CmdRawBatchDelete", "RawBatchDeleteRequest", [("Keys", "keys")]),
 ("CmdRawDeleteRange", "RawDeleteRangeRequest", [(("StartKey", "EndKey", None), "range")]),
 ("CmdRawScan", "RawScanRequest", [(("StartKey", "EndKey", "Reverse"), "range")]),
 ("CmdGetKeyTTL", "RawGetKeyTTLRequest", [("Key", "key")]),
 ("CmdRawCompareAndSwap", "RawCASRequest", [("Key", "key")]),
 ("CmdRawChecksum", "RawChecksumRequest", [("Ranges", "kranges")]),
 ("CmdUnsafeDestroyRange", "UnsafeDestroyRangeRequest", [(("StartKey", "EndKey", None), "range")]),
 ("CmdPhysicalScanLock", "PhysicalScanLockRequest", [("StartKey", "key")]),
 ("CmdStoreSafeTS", "StoreSafeTSRequest", [("KeyRange", "krange")]),
 ("CmdMvccGetByKey", "MvccGetByKeyRequest", [("Key", "key")]),
 ("CmdSplitRegion", "SplitRegionRequest", [("SplitKeys", "keys")]),
]

def main():
    out = []
    for cmd, typ, fields in TABLE:
        o = "old(req.Req.(*kvrpcpb.%s)" % typ   # + .F)
        n = "result0.Req.(*kvrpcpb.%s)" % typ
        q = "req.Req.(*kvrpcpb.%s)" % typ
        parts = ["result0.Req != req.Req"]
        for f, kind in fields:
            if kind == "key":
                parts.append("%s.%s == enc(c, %s.%s)) && %s.%s == %s.%s)" % (n, f, o, f, q, f, o, f))
            elif kind == "optkey":
                parts.append("%s.%s == ite(%s.%s) == \"\", \"\", enc(c, %s.%s)))" % (n, f, o, f, o, f))
            elif kind == "keys":
                parts.append("keysEnc(c, %s.%s), %s.%s)" % (o, f, n, f))
            elif kind == "muts":
                parts.append("mutsEnc(c, %s.%s), %s.%s)" % (o, f, n, f))
            elif kind == "pairs":
                parts.append("pairsEnc(c, %s.%s), %s.%s)" % (o, f, n, f))
            elif kind == "kranges":
                parts.append("krangesEnc(c, %s.%s), %s.%s)" % (o, f, n, f))
            elif kind == "krange":
                parts.append("%s.%s != nil && rangeEnc(c, %s.%s.StartKey), %s.%s.EndKey), %s.%s.StartKey, %s.%s.EndKey)" % (n, f, o, f, o, f, n, f, n, f))
            elif kind == "range":
                s, e, rev = f
                fwd = "rangeEnc(c, %s.%s), %s.%s), %s.%s, %s.%s)" % (o, s, o, e, n, s, n, e)
                if rev:
                    bwd = "rangeEncRev(c, %s.%s), %s.%s), %s.%s, %s.%s)" % (o, s, o, e, n, s, n, e)
                    parts.append("ite(%s.%s), %s, %s)" % (o, rev, bwd, fwd))
                else:
                    parts.append(fwd)
        label = cmd[3:].lower()
        out.append("//@   ensures %s: req.Type == tikvrpc.%s ==> %s" % (label, cmd, " && ".join(parts)))
    print("\n".join(out))

if __name__ == "__main__":
    main()
