#!/usr/bin/env python3
# Regenerates /verif/MANIFEST.json from tools/claims.json (per-property claim texts) and /repo's hook commits.
import json, subprocess, os
here = os.path.dirname(os.path.abspath(__file__))
root = os.path.dirname(here)
claims = json.load(open(os.path.join(here, 'claims.json')))
hooks = subprocess.check_output(['git', '-C', '/repo', 'log', '--format=%H', '--grep=^verif:']).decode().split()
props = [json.loads(l) for l in open(os.path.join(root, 'properties.jsonl'))]
checks = []
for pid in sorted(claims['claimed']):
    c = claims['claimed'][pid]
    checks.append(dict(property_id=pid, quick_cmd="./check.sh %s quick" % pid, thorough_cmd="./check.sh %s thorough" % pid,
        evidence_file="/verif/evidence/%s.json" % pid, replay_cmd_template="./check.sh --replay {path}", engine="gocv",
        level_claimed=dict(category="proof", text=c['text'], design_ref="DESIGN.md section 9, " + pid), level_note=c['note'],
        technique="contract-based deductive verification: VC generation over go/ssa of the real functions against //@ contracts kept in /repo (build tag verif), every obligation discharged by z3/cvc5; counterexamples replayed on the real code via go test -overlay"))
na = []
for p in props:
    if p['id'] in claims['claimed']:
        continue
    na.append(dict(property_id=p['id'], reason=claims['not_applicable'].get(p['id'], "contracts for this property are not yet written/discharged in this revision of /verif; no claim is made")))
m = dict(version=1, setup_cmd="./setup.sh",
  hooks=dict(guard="verif", enable="go build -tags=verif (hook files are comment-only: zz_contracts_verif.go with //go:build verif)",
             baseline_off_cmd=json.load(open('/root/.vp/BASELINE.json'))['cmd'], source_commits=hooks, add_only=True),
  engines=[dict(name="gocv", path="/verif/gocv", serves_properties=sorted(claims['claimed']),
                kind_free_text="VC generator for Go (go/ssa symbolic execution with contracts, loop invariants, component heaps) + SMT portfolio (z3 5.1, z3 4.8.12, cvc5)")],
  checks=checks, not_applicable=na,
  notes="Contracts live in /repo/**/zz_contracts_verif.go (build tag verif, comment-only) and /verif/contracts/_external (assumed contracts of dependencies). See DESIGN.md.")
json.dump(m, open(os.path.join(root, 'MANIFEST.json'), 'w'), indent=1)
print("MANIFEST.json: %d checks, %d not applicable" % (len(checks), len(na)))
