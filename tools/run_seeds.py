#!/usr/bin/env python3
# Applies every seeded defect under /verif/seeded to /repo, runs the check of its property, records what was reported,
# and undoes the change. Usage: tools/run_seeds.py [id-prefix]
import json, os, subprocess, sys, glob
root = '/verif'
pref = sys.argv[1] if len(sys.argv) > 1 else ''
rows = []
if subprocess.run(['git', '-C', '/repo', 'status', '--porcelain'], capture_output=True, text=True).stdout.strip():
    sys.exit('refusing to run: /repo has uncommitted changes (commit them first; seeds are applied to and removed from the working tree)')
for d in sorted(glob.glob(root + '/seeded/*')):
    sid = os.path.basename(d)
    if not sid.startswith(pref) or not os.path.exists(d + '/patch.diff'):
        continue
    prop = sid.split('-')[0]
    if subprocess.call(['git', '-C', '/repo', 'apply', d + '/patch.diff']) != 0:
        rows.append((sid, 'patch does not apply', []))
        continue
    try:
        p = subprocess.run([root + '/check.sh', prop, 'quick'], capture_output=True, text=True, cwd=root)
        viol = [l for l in p.stdout.splitlines() if l.startswith('VIOLATION')]
        failed = [l.split(' [')[0].replace('FAILED ', '') for l in p.stdout.splitlines() if l.startswith('FAILED')]
        gen = [l for l in p.stdout.splitlines() if l.startswith('cannot generate')]
    finally:
        subprocess.call(['git', '-C', '/repo', 'apply', '-R', d + '/patch.diff'])
    det = dict(seed=sid, property=prop, exit_code=p.returncode, detected=p.returncode == 1 and len(viol) > 0,
               failed_obligations=failed, generation_errors=[g[:300] for g in gen], violation_lines=viol)
    json.dump(det, open(d + '/detected.json', 'w'), indent=1)
    rows.append((sid, 'DETECTED' if det['detected'] else 'MISSED', failed or [g[:80] for g in gen]))
# the evidence files were overwritten by the seeded runs: write them again from the unchanged tree
for prop in sorted(set(sid.split('-')[0] for sid, _, _ in rows)):
    subprocess.run([root + '/check.sh', prop, 'quick'], capture_output=True, text=True, cwd=root)
for sid, res, obl in rows:
    print('%-8s %-9s %s' % (sid, res, '; '.join(o.split('/')[-1] for o in obl)[:200]))
