#!/usr/bin/env python3
# Generates the per-command postconditions of codecV2.DecodeResponse (property C15). For each command the response
# message type is the request message's name with Request -> Response (kvproto convention); the key-bearing parts that
# are specified are taken from the kvrpcpb message definitions: RegionError (witness: KeyNotInRegion.Key), Error
# (witness: Conflict.Key and Conflict.Primary), and pair lists Pairs/Kvs (every pair's key). Lists of key errors and of
# lock descriptions, MVCC debug info and region lists are decoded by the code but not specified here.
import re, glob, sys
sys.path.insert(0, '/verif/tools')
from gen_c15_encode_contract import TABLE
mod = sorted(glob.glob('/root/go/pkg/mod/github.com/pingcap/kvproto@*/pkg'))[-1]
kvrpcpb = open(mod + '/kvrpcpb/kvrpcpb.pb.go').read()
extra = [("CmdGC", "GCRequest", [])]
out = []
reqs = []
for c, typ, _ in TABLE + extra:
    rt = typ[:-len('Request')] + 'Response'
    m = re.search(r'type %s struct \{(.*?)\n\}' % rt, kvrpcpb, re.S)
    if not m:
        continue
    body = m.group(1)
    R = 'resp.Resp.(*kvrpcpb.%s)' % rt
    O = 'old(resp.Resp.(*kvrpcpb.%s)' % rt
    parts = []
    if re.search(r'\n\tRegionError +\*errorpb\.Error', body):
        parts.append('(%s.RegionError != nil && %s.RegionError.KeyNotInRegion != nil ==> decoded(c, %s.RegionError.KeyNotInRegion.Key), %s.RegionError.KeyNotInRegion.Key))' % (R, R, O, R))
    has_pairs = bool(re.search(r'\n\t(Pairs|Kvs) +\[\]\*KvPair', body))
    # (responses that carry pairs as well: the pairs' own key errors are decoded first, and without a separation
    # assumption between those messages and the response-level error the witness cannot be carried over - left out)
    if re.search(r'\n\tError +\*KeyError', body) and not has_pairs:
        parts.append('(%s.Error != nil && %s.Error.Conflict != nil ==> decoded(c, %s.Error.Conflict.Key), %s.Error.Conflict.Key) && decoded(c, %s.Error.Conflict.Primary), %s.Error.Conflict.Primary))' % (R, R, O, R, O, R))
    for f in ('Pairs', 'Kvs'):
        if re.search(r'\n\t%s +\[\]\*KvPair' % f, body):
            parts.append('len(%s.%s) == old(len(%s.%s)) && (forall i int :: 0 <= i && i < len(%s.%s) ==> %s.%s[i] != nil && decoded(c, %s.%s[i].Key), %s.%s[i].Key))' % (R, f, R, f, R, f, R, f, O, f, R, f))
            reqs.append('//@   requires %s: req.Type == tikvrpc.%s ==> pairsOK(resp.Resp.(*kvrpcpb.%s).%s)' % (c[3:].lower() + f.lower(), c, rt, f))
    if parts:
        out.append('//@   ensures %s: req.Type == tikvrpc.%s && result1 == nil ==> result0 == resp && %s' % (c[3:].lower(), c, ' && '.join(parts)))
print('\n'.join(reqs))
print('\n'.join(out))
