#!/usr/bin/env python3
# Generates the per-command postconditions of tikvrpc.GenRegionErrorResp, (*Request).ToBatchCommandsRequest and
# FromBatchCommandsResponse (property C15) from the protobuf-generated definitions of kvproto (the oneof wrappers of
# tikvpb.BatchCommandsRequest/Response and the kvrpcpb message names) - not from the client-go code under contract.
import re, glob, sys
mod = sorted(glob.glob('/root/go/pkg/mod/github.com/pingcap/kvproto@*/pkg'))[-1]
tikvpb = open(mod + '/tikvpb/tikvpb.pb.go').read()
kvrpcpb = open(mod + '/kvrpcpb/kvrpcpb.pb.go').read()
rpc = open('/repo/tikvrpc/tikvrpc.go').read()
cmds = set(re.findall(r'^\t(Cmd[A-Za-z0-9]+)\b', rpc, re.M))
# wire name -> Cmd constant where the names differ
ALIAS = {'Coprocessor': 'CmdCop', 'RawGetKeyTTL': 'CmdGetKeyTTL', 'RawCAS': 'CmdRawCompareAndSwap'}
def cmd_of(name):
    c = ALIAS.get(name, 'Cmd' + name)
    return c if c in cmds else None
reqw = re.findall(r'type BatchCommandsRequest_Request_(\w+) struct \{\n\t(\w+) +\*(\w+\.)?(\w+) ', tikvpb)
resw = re.findall(r'type BatchCommandsResponse_Response_(\w+) struct \{\n\t(\w+) +\*(\w+\.)?(\w+) ', tikvpb)
out = {'to': [], 'from': [], 'gen': []}
for name, field, pkg, typ in reqw:
    c = cmd_of(name)
    if not c or not pkg:
        continue
    w = '*tikvpb.BatchCommandsRequest_Request_%s' % name
    out['to'].append('//@   ensures %s: req.Type == %s ==> result != nil && typeIs(result.Cmd, %s) && result.Cmd.(%s).%s == req.Req.(*%s%s)' % (name.lower(), c, w, w, field, pkg, typ))
for name, field, pkg, typ in resw:
    if not pkg or not cmd_of(name):
        continue  # wrappers of commands this client never sends (Import, RawBatchScan, RawCoprocessor): not claimed
    w = '*tikvpb.BatchCommandsResponse_Response_%s' % name
    out['from'].append('//@   ensures %s: res != nil && typeIs(res.Cmd, %s) ==> result1 == nil && result0 != nil && typeIs(result0.Resp, *%s%s) && result0.Resp.(*%s%s) == res.Cmd.(%s).%s' % (name.lower(), w, pkg, typ, pkg, typ, w, field))
# region-error responses: request message XRequest -> response message XResponse carrying RegionError
for name, field, pkg, typ in reqw:
    c = cmd_of(name)
    if not c or pkg != 'kvrpcpb.':
        continue
    rt = typ[:-len('Request')] + 'Response'
    m = re.search(r'type %s struct \{(.*?)\n\}' % rt, kvrpcpb, re.S)
    if not m or 'RegionError ' not in m.group(1):
        continue
    out['gen'].append('//@   ensures %s: req.Type == %s ==> result1 == nil && result0 != nil && typeIs(result0.Resp, *kvrpcpb.%s) && result0.Resp.(*kvrpcpb.%s).RegionError == e' % (name.lower(), c, rt, rt))
# commands that are not part of the batched stream: request messages taken from the EncodeRequest table
sys.path.insert(0, '/verif/tools')
from gen_c15_encode_contract import TABLE
have = set(l.split(':')[0] for l in out['gen'])
for c, typ, _ in TABLE:
    rt = typ[:-len('Request')] + 'Response'
    label = c[3:].lower()
    if any((' req.Type == %s ' % c) in l for l in out['gen']):
        continue
    m = re.search(r'type %s struct \{(.*?)\n\}' % rt, kvrpcpb, re.S)
    if not m or 'RegionError ' not in m.group(1) or c not in cmds:
        continue
    out['gen'].append('//@   ensures %s: req.Type == %s ==> result1 == nil && result0 != nil && typeIs(result0.Resp, *kvrpcpb.%s) && result0.Resp.(*kvrpcpb.%s).RegionError == e' % (label, c, rt, rt))
which = sys.argv[1] if len(sys.argv) > 1 else 'all'
for k in ('gen', 'to', 'from'):
    if which in ('all', k):
        print('// ---- %s' % k)
        print('\n'.join(out[k]))
