#!/usr/bin/env python3
# Prints a markdown table of the seeded changes under /verif/seeded and the obligations that reported them.
import json, glob, os
print("| seed | what was changed | reported by (first failing obligations) |")
print("|------|------------------|------------------------------------------|")
for d in sorted(glob.glob('/verif/seeded/*')):
    sid = os.path.basename(d)
    try:
        meta = json.load(open(d + '/meta.json'))
    except Exception:
        meta = {}
    try:
        det = json.load(open(d + '/detected.json'))
    except Exception:
        det = {}
    what = (meta.get('summary') or meta.get('description') or '').replace('\n', ' ').replace('|', '/')
    if len(what) > 230:
        what = what[:227] + '...'
    obl = [o.split('/')[-1] for o in det.get('failed_obligations', [])][:3]
    if not obl and det.get('generation_errors'):
        obl = ['contract no longer binds to the code (generation error)']
    res = 'DETECTED' if det.get('detected') else ('MISSED' if det else 'not run')
    print("| %s | %s | %s: %s |" % (sid, what, res, '; '.join(obl)))
