#!/bin/sh
# Runs the quick check of every claimed property on /repo's working tree; prints one line per property and any alarm.
cd /verif
fail=0
for p in $(python3 -c "import json;print(' '.join(c['property_id'] for c in json.load(open('/verif/MANIFEST.json'))['checks']))"); do
  out=$(./check.sh $p quick 2>&1); rc=$?
  echo "$out" | grep -E "^$p:|^VIOLATION|^KNOWN-FINDING" | cut -c1-200
  [ $rc -ne 0 ] && fail=1
done
[ $fail -eq 0 ] && echo "ALL CLEAN" || echo "ALARMS PRESENT"
