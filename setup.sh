#!/bin/sh
# Builds the verifier from the sources in /verif (offline; needs only the cached Go toolchain and x/tools v0.29.0).
set -e
cd "$(dirname "$0")"
. ./env.sh
mkdir -p bin evidence
(cd gocv && go build -o ../bin/gocv .)
# smoke-test the solvers
printf '(declare-const x Int)\n(assert (> x 2))\n(check-sat)\n' > bin/smoke.smt2
for s in "z3-new" "z3" "cvc5"; do
  r=$($s bin/smoke.smt2 2>/dev/null | head -1)
  [ "$r" = "sat" ] || echo "warning: solver $s did not answer the smoke query (got: $r)"
done
rm -f bin/smoke.smt2
echo "setup ok"
