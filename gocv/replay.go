package main

// Replay of solver counterexamples against the real code (DESIGN §6): for functions whose inputs are
// value-like (integers, booleans, byte strings) a Go test is generated that calls the real function on the
// model's inputs (injected with `go test -overlay`, nothing is written into /repo); the violated contract
// clause is then evaluated on the concrete inputs/outputs by the solver.

import (
	"bytes"
	"context"
	"encoding/json"
	"fmt"
	"go/types"
	"os"
	"os/exec"
	"path/filepath"
	"sort"
	"strings"
	"time"

	"golang.org/x/tools/go/ssa"
)

const replayMaxLen = 24

type concVal struct {
	kind  string // int, bool, bytes, key, err
	i     string
	b     bool
	bytes []int
	base  int // for result slices: index of the input slice they alias, or -1
	off   int
	cap   int
	panic string
}

func replayable(t types.Type, keyMode bool) bool {
	if _, _, ok := intRange(t); ok {
		return true
	}
	switch u := t.Underlying().(type) {
	case *types.Basic:
		return u.Info()&types.IsBoolean != 0
	case *types.Slice:
		return isByteSlice(t)
	case *types.Interface:
		return types.Identical(t, types.Universe.Lookup("error").Type())
	}
	return false
}

func dbg(format string, a ...interface{}) {
	if os.Getenv("GOCV_DEBUG") != "" {
		fmt.Fprintf(os.Stderr, "[replay] "+format+"\n", a...)
	}
}

func tryReplay(o checkOpts, dir, base string, ob *Obligation) (string, bool) {
	r := ob.run
	if r.spec == nil || r.spec.Replay != "auto" || ob.clause == nil || r.top == nil {
		return "", false
	}
	fn := r.top
	if fn.Signature.Recv() != nil || len(fn.FreeVars) > 0 {
		return "", false
	}
	key := r.eng.sorts.keyMode
	for _, p := range fn.Params {
		if !replayable(p.Type(), key) || types.Identical(p.Type(), types.Universe.Lookup("error").Type()) {
			return "", false
		}
	}
	for i := 0; i < fn.Signature.Results().Len(); i++ {
		if !replayable(fn.Signature.Results().At(i).Type(), key) {
			return "", false
		}
	}
	tmp, err := os.MkdirTemp("", "gocv-replay-")
	if err != nil {
		return "", false
	}
	if os.Getenv("GOCV_DEBUG") == "" {
		defer os.RemoveAll(tmp)
	} else {
		dbg("files in %s", tmp)
	}
	// 1. model with bounded lengths
	var terms []string
	var extra []string
	heap := r.heapInit["E_uint8"]
	for _, in := range r.inputs {
		switch {
		case in.tv.Sort == SSlice:
			extra = append(extra, app("assert", app("<=", app("s_len", in.tv.S), num(replayMaxLen))))
			terms = append(terms, app("s_len", in.tv.S))
			for k := 0; k < replayMaxLen; k++ {
				if heap != "" {
					terms = append(terms, app("select", app("select", heap, app("s_arr", in.tv.S)), app("+", app("s_off", in.tv.S), num(int64(k)))))
				} else {
					terms = append(terms, "0")
				}
			}
		default:
			terms = append(terms, in.tv.S)
		}
	}
	var q strings.Builder
	for _, d := range r.eng.sorts.decls {
		if !strings.HasSuffix(d, ";bg") {
			q.WriteString(d + "\n")
		}
	}
	for _, c := range r.script[:ob.prefixLen] {
		if !strings.HasSuffix(c, ";bg") {
			q.WriteString(c + "\n")
		}
	}
	if heap != "" {
		q.WriteString(fmt.Sprintf("(assert (forall ((x Int) (i Int)) (and (<= 0 (select (select %s x) i)) (<= (select (select %s x) i) 255))))\n", heap, heap))
	}
	for _, x := range extra {
		q.WriteString(x + "\n")
	}
	q.WriteString(app("assert", not(ob.goal)) + "\n(check-sat)\n(get-value (" + strings.Join(terms, " ") + "))\n")
	res, text, _ := runSolver(solvers[0], q.String(), tmp, "model", 10)
	if res != "sat" {
		dbg("model query: %s %s", res, truncate(text, 300))
		return "", false
	}
	vals := make([]string, len(terms))
	for i := range terms {
		vals[i] = modelValue(text, i, len(terms))
	}
	// 2. concrete inputs
	var ins []concVal
	pos := 0
	var keyInts []string
	for _, in := range r.inputs {
		switch {
		case in.tv.Sort == SSlice:
			n := atoiSMT(vals[pos])
			pos++
			cv := concVal{kind: "bytes"}
			for k := 0; k < replayMaxLen; k++ {
				if k < n {
					cv.bytes = append(cv.bytes, atoiSMT(vals[pos])&255)
				}
				pos++
			}
			ins = append(ins, cv)
		case in.tv.Sort == SBool:
			ins = append(ins, concVal{kind: "bool", b: vals[pos] == "true"})
			pos++
		case in.tv.Sort == SInt && in.tv.T != nil && isByteSlice(in.tv.T):
			ins = append(ins, concVal{kind: "key", i: smtInt(vals[pos])})
			keyInts = append(keyInts, smtInt(vals[pos]))
			pos++
		default:
			ins = append(ins, concVal{kind: "int", i: smtInt(vals[pos])})
			pos++
		}
	}
	keyMap := embedKeys(keyInts)
	// 3. generate and run the test
	pkgDir := filepath.Join(o.repo, strings.TrimPrefix(strings.TrimPrefix(fn.Pkg.Pkg.Path(), r.eng.modPath), "/"))
	src := genReplayTest(fn, ins, keyMap)
	testFile := filepath.Join(tmp, "zz_gocv_replay_test.go")
	os.WriteFile(testFile, []byte(src), 0o644)
	ov := map[string]map[string]string{"Replace": {filepath.Join(pkgDir, "zz_gocv_replay_test.go"): testFile}}
	ovData, _ := json.Marshal(ov)
	ovFile := filepath.Join(tmp, "overlay.json")
	os.WriteFile(ovFile, ovData, 0o644)
	ctx, cancel := context.WithTimeout(context.Background(), 180*time.Second)
	defer cancel()
	cmd := exec.CommandContext(ctx, "go", "test", "-overlay", ovFile, "-vet=off", "-count=1", "-timeout", "60s", "-v", "-run", "^TestGocvReplay$", ".")
	cmd.Dir = pkgDir
	var out bytes.Buffer
	cmd.Stdout, cmd.Stderr = &out, &out
	if err := cmd.Run(); err != nil {
		dbg("go test in %s: %v", pkgDir, err)
	}
	line := ""
	for _, l := range strings.Split(out.String(), "\n") {
		if strings.HasPrefix(l, "GOCV-REPLAY ") {
			line = strings.TrimPrefix(l, "GOCV-REPLAY ")
		}
	}
	if line == "" {
		dbg("no replay output:\n%s", truncate(out.String(), 2000))
		return "", false
	}
	var rr struct {
		Panic   string                   `json:"panic"`
		Results []map[string]interface{} `json:"results"`
		After   [][]int                  `json:"after"`
	}
	if err := json.Unmarshal([]byte(line), &rr); err != nil {
		return "", false
	}
	verdict := ""
	if rr.Panic != "" {
		if r.spec.MayPanic {
			return "", false
		}
		verdict = "the real function panics on this input: " + rr.Panic
	} else {
		viol, err := evalConcrete(r, fn, ob, ins, rr.Results, rr.After, keyMap, tmp)
		if err != nil || !viol {
			dbg("concrete evaluation: viol=%v err=%v output=%s", viol, err, line)
			return "", false
		}
		verdict = "the contract clause evaluates to false on the real function's output"
	}
	// 4. keep the replay: test file + description
	os.MkdirAll(dir, 0o755)
	p := filepath.Join(dir, base+"_replay_test.go")
	hdr := fmt.Sprintf("// Replay of obligation %s\n// contract: %s\n// verdict: %s\n// real output: %s\n// re-run: gocv replay %s\n", ob.Name, ob.Text, verdict, line, p)
	os.WriteFile(p, []byte(hdr+src), 0o644)
	return p, true
}

func atoiSMT(s string) int {
	v := smtInt(s)
	n := 0
	fmt.Sscan(v, &n)
	return n
}

func smtInt(s string) string {
	s = strings.TrimSpace(s)
	if strings.HasPrefix(s, "(-") {
		s = strings.TrimSpace(strings.TrimSuffix(strings.TrimPrefix(s, "(-"), ")"))
		return "-" + s
	}
	return s
}

// embedKeys maps abstract key integers to byte strings preserving order, emptiness and successor pairs.
func embedKeys(ints []string) map[string][]byte {
	m := map[string][]byte{}
	type kv struct {
		s string
		n int64
	}
	var ks []kv
	seen := map[string]bool{}
	for _, s := range ints {
		if seen[s] {
			continue
		}
		seen[s] = true
		var n int64
		fmt.Sscan(s, &n)
		ks = append(ks, kv{s, n})
	}
	sort.Slice(ks, func(i, j int) bool { return ks[i].n < ks[j].n })
	letter := byte('a')
	var prev []byte
	var prevN int64 = -10
	for _, k := range ks {
		if k.n <= 0 {
			m[k.s] = []byte{}
			prev, prevN = []byte{}, 0
			continue
		}
		if k.n == prevN+1 && prevN >= 0 {
			prev = append(append([]byte{}, prev...), 0)
		} else {
			prev = []byte{letter}
			letter++
		}
		prevN = k.n
		m[k.s] = prev
	}
	return m
}

func goBytesLit(b []int) string {
	if b == nil {
		return "[]byte(nil)"
	}
	var sb strings.Builder
	sb.WriteString("[]byte{")
	for i, x := range b {
		if i > 0 {
			sb.WriteString(", ")
		}
		fmt.Fprintf(&sb, "0x%02x", x)
	}
	sb.WriteString("}")
	return sb.String()
}

func genReplayTest(fn *ssa.Function, ins []concVal, keyMap map[string][]byte) string {
	var sb strings.Builder
	fmt.Fprintf(&sb, "package %s\n\nimport (\n\t\"encoding/json\"\n\t\"fmt\"\n\t\"testing\"\n\t\"unsafe\"\n)\n\n", fn.Pkg.Pkg.Name())
	sb.WriteString("func TestGocvReplay(t *testing.T) {\n")
	sb.WriteString("\tvar inSlices [][]byte\n")
	var args []string
	for i, p := range fn.Params {
		name := fmt.Sprintf("a%d", i)
		cv := ins[i]
		ts := types.TypeString(p.Type(), func(pk *types.Package) string {
			if pk == fn.Pkg.Pkg {
				return ""
			}
			return pk.Name()
		})
		switch cv.kind {
		case "bytes":
			fmt.Fprintf(&sb, "\t%s := %s(%s)\n\tinSlices = append(inSlices, %s)\n", name, ts, goBytesLit(cv.bytes), name)
		case "key":
			kb := keyMap[cv.i]
			var bi []int
			for _, x := range kb {
				bi = append(bi, int(x))
			}
			if bi == nil {
				bi = []int{}
			}
			fmt.Fprintf(&sb, "\t%s := %s(%s)\n\tinSlices = append(inSlices, %s)\n", name, ts, goBytesLit(bi), name)
		case "bool":
			fmt.Fprintf(&sb, "\t%s := %v\n", name, cv.b)
		default:
			fmt.Fprintf(&sb, "\tvar %s %s\n\t{\n\t\tvar tmp interface{} = %s\n\t\t_ = tmp\n\t}\n", name, ts, "nil")
			_, signed, _ := intWidth(p.Type())
			if signed {
				fmt.Fprintf(&sb, "\t%s = %s(int64(%s))\n", name, ts, safeIntLit(cv.i))
			} else {
				fmt.Fprintf(&sb, "\t%s = %s(uint64(%s))\n", name, ts, cv.i)
			}
		}
		args = append(args, name)
	}
	nres := fn.Signature.Results().Len()
	var rs []string
	for i := 0; i < nres; i++ {
		rs = append(rs, fmt.Sprintf("r%d", i))
	}
	sb.WriteString("\tout := map[string]interface{}{}\n")
	sb.WriteString("\tfunc() {\n\t\tdefer func() {\n\t\t\tif x := recover(); x != nil {\n\t\t\t\tout[\"panic\"] = fmt.Sprint(x)\n\t\t\t}\n\t\t}()\n")
	if nres > 0 {
		fmt.Fprintf(&sb, "\t\t%s := %s(%s)\n", strings.Join(rs, ", "), fn.Name(), strings.Join(args, ", "))
	} else {
		fmt.Fprintf(&sb, "\t\t%s(%s)\n", fn.Name(), strings.Join(args, ", "))
	}
	sb.WriteString("\t\tvar results []map[string]interface{}\n")
	for i := 0; i < nres; i++ {
		rt := fn.Signature.Results().At(i).Type()
		switch {
		case isByteSlice(rt):
			fmt.Fprintf(&sb, "\t\tresults = append(results, gocvSlice([]byte(r%d), inSlices))\n", i)
		case types.Identical(rt, types.Universe.Lookup("error").Type()):
			fmt.Fprintf(&sb, "\t\tresults = append(results, map[string]interface{}{\"kind\": \"err\", \"nonnil\": r%d != nil})\n", i)
		case rt.Underlying().(*types.Basic).Info()&types.IsBoolean != 0:
			fmt.Fprintf(&sb, "\t\tresults = append(results, map[string]interface{}{\"kind\": \"bool\", \"b\": bool(r%d)})\n", i)
		default:
			fmt.Fprintf(&sb, "\t\tresults = append(results, map[string]interface{}{\"kind\": \"int\", \"i\": fmt.Sprint(r%d)})\n", i)
		}
	}
	sb.WriteString("\t\tout[\"results\"] = results\n\t}()\n")
	sb.WriteString("\tvar after [][]int\n\tfor _, s := range inSlices {\n\t\ta := []int{}\n\t\tfor _, x := range s {\n\t\t\ta = append(a, int(x))\n\t\t}\n\t\tafter = append(after, a)\n\t}\n\tout[\"after\"] = after\n")
	sb.WriteString("\tdata, _ := json.Marshal(out)\n\tfmt.Println(\"GOCV-REPLAY\", string(data))\n}\n\n")
	sb.WriteString(`func gocvSlice(r []byte, ins [][]byte) map[string]interface{} {
	m := map[string]interface{}{"kind": "bytes", "base": -1, "off": 0, "cap": cap(r), "nil": r == nil}
	bs := []int{}
	for _, x := range r {
		bs = append(bs, int(x))
	}
	m["bytes"] = bs
	rp := uintptr(unsafe.Pointer(unsafe.SliceData(r)))
	for i, in := range ins {
		ip := uintptr(unsafe.Pointer(unsafe.SliceData(in)))
		if ip != 0 && rp >= ip && rp <= ip+uintptr(cap(in)) && (cap(in) > 0) {
			m["base"] = i
			m["off"] = int(rp - ip)
			break
		}
	}
	return m
}
`)
	return sb.String()
}

func safeIntLit(s string) string {
	if s == "-9223372036854775808" {
		return "-9223372036854775807 - 1"
	}
	return s
}

// evalConcrete evaluates the failed contract clause on concrete inputs and the real function's outputs.
func evalConcrete(r0 *Run, fn *ssa.Function, ob *Obligation, ins []concVal, results []map[string]interface{}, after [][]int, keyMap map[string][]byte, tmp string) (bool, error) {
	e := r0.eng
	r := &Run{eng: e, top: fn, spec: r0.spec, heapSort: map[string]string{}, heapInit: map[string]string{}, warnings: map[string]bool{},
		abstracted: map[string]bool{}, inlined: map[string]bool{}, assumed: map[string]bool{}, oblNames: map[string]int{}, ghostUF: map[string]bool{}}
	st := &State{reach: "true", env: map[ssa.Value]Val{}, heaps: map[string]string{}, vars: map[string]Val{}, frontier: "1000"}
	r.entry = st
	key := e.sorts.keyMode
	narr := 0
	arrTerm := func(b []int) string {
		narr++
		name := fmt.Sprintf("carr!%d", narr)
		r.emit(fmt.Sprintf("(declare-const %s (Array Int Int))", name))
		for i, x := range b {
			r.emit(fmt.Sprintf("(assert (= (select %s %d) %d))", name, i, x))
		}
		return name
	}
	// reverse key embedding for outputs
	keyOf := func(b []byte) string {
		for k, v := range keyMap {
			if bytes.Equal(v, b) {
				return k
			}
		}
		// place new strings relative to the known ones (order only)
		type kv struct {
			n int64
			b []byte
		}
		var ks []kv
		for k, v := range keyMap {
			var n int64
			fmt.Sscan(k, &n)
			ks = append(ks, kv{n, v})
		}
		sort.Slice(ks, func(i, j int) bool { return ks[i].n < ks[j].n })
		lo := int64(0)
		for _, k := range ks {
			if bytes.Compare(k.b, b) < 0 {
				lo = k.n
			}
		}
		if len(b) == 0 {
			return "0"
		}
		return fmt.Sprintf("%d", lo*1000+500) // not exact; order against known keys is preserved only roughly
	}
	_ = keyOf
	binds := map[string]Val{}
	r.emit("(declare-const E_uint8!base (Array Int (Array Int Int)))")
	oldHeap := "E_uint8!base"
	newHeap := oldHeap
	si := 0
	sliceRef := map[int]int{}
	for i, p := range fn.Params {
		cv := ins[i]
		switch cv.kind {
		case "bytes":
			ref := 10 + si
			sliceRef[si] = ref
			oldHeap = app("store", oldHeap, num(int64(ref)), arrTerm(cv.bytes))
			if si < len(after) {
				newHeap = app("store", newHeap, num(int64(ref)), arrTerm(after[si]))
			}
			n := len(cv.bytes)
			arr := num(int64(ref))
			if cv.bytes == nil {
				arr = "0"
			}
			binds[p.Name()] = TV{app("mk_slice", arr, "0", num(int64(n)), num(int64(n))), SSlice, p.Type()}
			si++
		case "key":
			binds[p.Name()] = TV{cv.i, SInt, p.Type()}
			si++
		case "bool":
			binds[p.Name()] = TV{fmt.Sprint(cv.b), SBool, p.Type()}
		default:
			binds[p.Name()] = TV{smtNum(cv.i), SInt, p.Type()}
		}
	}
	var resVals []Val
	for i, m := range results {
		rt := fn.Signature.Results().At(i).Type()
		switch m["kind"] {
		case "bytes":
			var bs []int
			for _, x := range m["bytes"].([]interface{}) {
				bs = append(bs, int(x.(float64)))
			}
			if key {
				bb := make([]byte, len(bs))
				for j, x := range bs {
					bb[j] = byte(x)
				}
				resVals = append(resVals, TV{keyOf(bb), SInt, rt})
				continue
			}
			base := int(m["base"].(float64))
			off := int(m["off"].(float64))
			cp := int(m["cap"].(float64))
			if isNil, _ := m["nil"].(bool); isNil {
				resVals = append(resVals, TV{"(mk_slice 0 0 0 0)", SSlice, rt})
				continue
			}
			if base >= 0 {
				resVals = append(resVals, TV{app("mk_slice", num(int64(sliceRef[base])), num(int64(off)), num(int64(len(bs))), num(int64(cp))), SSlice, rt})
			} else {
				ref := 500 + i
				newHeap = app("store", newHeap, num(int64(ref)), arrTerm(bs))
				resVals = append(resVals, TV{app("mk_slice", num(int64(ref)), "0", num(int64(len(bs))), num(int64(cp))), SSlice, rt})
			}
		case "err":
			if nn, _ := m["nonnil"].(bool); nn {
				resVals = append(resVals, TV{"(mk_iface 1 1)", SIface, rt})
			} else {
				resVals = append(resVals, TV{"(mk_iface 0 0)", SIface, rt})
			}
		case "bool":
			resVals = append(resVals, TV{fmt.Sprint(m["b"]), SBool, rt})
		default:
			resVals = append(resVals, TV{smtNum(m["i"].(string)), SInt, rt})
		}
	}
	if !key {
		hn := e.elemHeapName(types.Typ[types.Uint8])
		r.heapSort[hn] = e.heapSorts[hn]
		r.heapInit[hn] = "E_uint8!c0"
		r.emit(fmt.Sprintf("(define-fun E_uint8!c0 () (Array Int (Array Int Int)) %s)", oldHeap))
		r.emit(fmt.Sprintf("(define-fun E_uint8!c1 () (Array Int (Array Int Int)) %s)", newHeap))
		st.heaps[hn] = "E_uint8!c0"
	}
	old := st.clone()
	cur := st.clone()
	if !key {
		cur.heaps[e.elemHeapName(types.Typ[types.Uint8])] = "E_uint8!c1"
	}
	switch len(resVals) {
	case 0:
	case 1:
		bindResults(binds, fn.Signature, resVals[0])
	default:
		bindResults(binds, fn.Signature, Tuple(resVals))
	}
	fr := &Frame{run: r, fn: fn, top: false, spec: r0.spec, params: binds, entry: old}
	cx := &evalCtx{fr: fr, run: r, st: cur, old: old, binds: binds, pkg: fn.Pkg.Pkg}
	f, err := cx.boolExpr(ob.clause.Expr)
	if err != nil {
		return false, err
	}
	var q strings.Builder
	for _, d := range e.sorts.decls {
		if !strings.HasSuffix(d, ";bg") {
			q.WriteString(d + "\n")
		}
	}
	for _, c := range r.script {
		if !strings.HasSuffix(c, ";bg") {
			q.WriteString(c + "\n")
		}
	}
	q.WriteString(app("assert", not(f)) + "\n(check-sat)\n")
	res, _, _ := runSolver(solvers[0], q.String(), tmp, "concrete", 20)
	return res == "sat", nil
}

func smtNum(s string) string {
	if strings.HasPrefix(s, "-") {
		return "(- " + s[1:] + ")"
	}
	return s
}

// cmdReplay re-runs a kept replay test against the current /repo.
func cmdReplay(args []string) int {
	if len(args) < 1 {
		fmt.Fprintln(os.Stderr, "usage: gocv replay <file>")
		return 2
	}
	path := args[0]
	repo := "/repo"
	if len(args) > 1 {
		repo = args[1]
	}
	data, err := os.ReadFile(path)
	if err != nil {
		fmt.Fprintln(os.Stderr, err)
		return 2
	}
	if !strings.HasSuffix(path, "_test.go") {
		os.Stdout.Write(data)
		return 0
	}
	// find the package from the "package x" clause and the obligation name in the header
	var pkgPath string
	for _, l := range strings.Split(string(data), "\n") {
		if strings.HasPrefix(l, "// Replay of obligation ") {
			name := strings.TrimPrefix(l, "// Replay of obligation ")
			if i := strings.Index(name, ":"); i >= 0 {
				name = name[:i]
			}
			name = strings.TrimPrefix(name, "github.com/tikv/client-go/v2")
			if j := strings.LastIndex(name, "."); j >= 0 {
				pkgPath = strings.Trim(name[:j], "/()*")
			}
		}
	}
	tmp, _ := os.MkdirTemp("", "gocv-replay-")
	defer os.RemoveAll(tmp)
	pkgDir := filepath.Join(repo, pkgPath)
	ov := map[string]map[string]string{"Replace": {filepath.Join(pkgDir, "zz_gocv_replay_test.go"): path}}
	ovData, _ := json.Marshal(ov)
	ovFile := filepath.Join(tmp, "overlay.json")
	os.WriteFile(ovFile, ovData, 0o644)
	cmd := exec.Command("go", "test", "-overlay", ovFile, "-vet=off", "-count=1", "-timeout", "60s", "-v", "-run", "^TestGocvReplay$", ".")
	cmd.Dir = pkgDir
	cmd.Stdout, cmd.Stderr = os.Stdout, os.Stderr
	cmd.Run()
	return 0
}
