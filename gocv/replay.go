package main

func tryReplay(o checkOpts, dir, base string, ob *Obligation) (string, bool) { return "", false }

func cmdReplay(args []string) int { return 0 }
