package main

// KNOWN_FINDINGS.txt: genuine defects recorded rather than repaired (see DESIGN §6).
//   finding: property=<id> obligation=<name> except=<predicate> -- <what fails>
//   fixed: property=<id> <commit> <what failed>          (suppresses nothing)

import (
	"os"
	"strings"
)

type knownFinding struct {
	prop, obligation, exceptText, text string
	except                             *SExpr
}

type knownFindings struct {
	list []*knownFinding
}

func loadKnownFindings(path, prop string) *knownFindings {
	kf := &knownFindings{}
	data, err := os.ReadFile(path)
	if err != nil {
		return kf
	}
	for _, ln := range strings.Split(string(data), "\n") {
		ln = strings.TrimSpace(ln)
		if !strings.HasPrefix(ln, "finding:") {
			continue
		}
		body := strings.TrimSpace(ln[len("finding:"):])
		text := ""
		if i := strings.Index(body, " -- "); i >= 0 {
			text = strings.TrimSpace(body[i+4:])
			body = body[:i]
		}
		f := &knownFinding{text: text}
		// key=value fields; except= runs to the end
		if i := strings.Index(body, " except="); i >= 0 {
			f.exceptText = strings.TrimSpace(body[i+8:])
			body = body[:i]
		}
		for _, fld := range strings.Fields(body) {
			if strings.HasPrefix(fld, "property=") {
				f.prop = fld[9:]
			}
			if strings.HasPrefix(fld, "obligation=") {
				f.obligation = fld[11:]
			}
		}
		if f.prop != prop || f.obligation == "" {
			continue
		}
		if f.exceptText != "" {
			e, err := parseSpecExpr(f.exceptText)
			if err != nil {
				continue
			}
			f.except = e
		}
		kf.list = append(kf.list, f)
	}
	return kf
}

func (k *knownFindings) match(o *Obligation) *knownFinding {
	if k == nil {
		return nil
	}
	for _, f := range k.list {
		if f.obligation == o.Name && f.except != nil {
			return f
		}
	}
	return nil
}
