package main

// Terms are SMT-LIB s-expressions kept as strings together with their sort.
// Integers of every Go width are SMT Int (wrapping made explicit with mod), see DESIGN §3.4.

import (
	"fmt"
	"go/types"
	"math/big"
	"regexp"
	"sort"
	"strings"
)

type TV struct {
	S    string     // s-expression
	Sort string     // SMT sort
	T    types.Type // Go type when known (may be nil for pure spec values)
}

func (t TV) ok() bool { return t.S != "" }

const (
	SInt   = "Int"
	SBool  = "Bool"
	SSlice = "Slice"
	SIface = "Iface"
	SReal  = "Real"
)

func app(op string, args ...string) string {
	if len(args) == 0 {
		return op
	}
	return "(" + op + " " + strings.Join(args, " ") + ")"
}

func num(n int64) string {
	if n < 0 {
		return fmt.Sprintf("(- %d)", -n)
	}
	return fmt.Sprintf("%d", n)
}

func bigNum(b *big.Int) string {
	if b.Sign() < 0 {
		return "(- " + new(big.Int).Neg(b).String() + ")"
	}
	return b.String()
}

func pow2(k uint) *big.Int { return new(big.Int).Lsh(big.NewInt(1), k) }

func and(xs ...string) string {
	var out []string
	for _, x := range xs {
		if x == "true" || x == "" {
			continue
		}
		if x == "false" {
			return "false"
		}
		out = append(out, x)
	}
	switch len(out) {
	case 0:
		return "true"
	case 1:
		return out[0]
	}
	return app("and", out...)
}

func or(xs ...string) string {
	var out []string
	for _, x := range xs {
		if x == "false" || x == "" {
			continue
		}
		if x == "true" {
			return "true"
		}
		out = append(out, x)
	}
	switch len(out) {
	case 0:
		return "false"
	case 1:
		return out[0]
	}
	return app("or", out...)
}

func not(x string) string {
	switch x {
	case "true":
		return "false"
	case "false":
		return "true"
	}
	if strings.HasPrefix(x, "(not ") {
		return x[5 : len(x)-1]
	}
	return app("not", x)
}

func implies(a, b string) string {
	if a == "true" {
		return b
	}
	if a == "false" || b == "true" {
		return "true"
	}
	return app("=>", a, b)
}

func ite(c, a, b string) string {
	if c == "true" {
		return a
	}
	if c == "false" {
		return b
	}
	if a == b {
		return a
	}
	return app("ite", c, a, b)
}

func add(a, b string) string {
	if a == "0" {
		return b
	}
	if b == "0" {
		return a
	}
	return app("+", a, b)
}

func sub(a, b string) string {
	if b == "0" {
		return a
	}
	return app("-", a, b)
}

func eq(a, b string) string {
	if a == b {
		return "true"
	}
	return app("=", a, b)
}

// ---------------------------------------------------------------------------------------------
// Sorts

type structInfo struct {
	name   string // datatype sort name
	st     *types.Struct
	tname  string // printable Go type name used in heap names
	fields []string
}

type Sorts struct {
	decls    []string // datatype declarations in dependency order
	structs  map[string]*structInfo
	byType   map[types.Type]*structInfo
	keyMode  bool
	names    map[string]int
	subFuncs map[string]bool
	subKinds int
	preamble []string
}

func newSorts(keyMode bool) *Sorts {
	s := &Sorts{structs: map[string]*structInfo{}, byType: map[types.Type]*structInfo{}, keyMode: keyMode, names: map[string]int{}, subFuncs: map[string]bool{}, subKinds: 2}
	s.decls = append(s.decls,
		"(declare-datatypes ((Slice 0)) (((mk_slice (s_arr Int) (s_off Int) (s_len Int) (s_cap Int)))))",
		"(declare-datatypes ((Iface 0)) (((mk_iface (i_tag Int) (i_val Int)))))",
		"(declare-fun elemref (Int Int) Int)",
		"(declare-fun elem_arr (Int) Int)",
		"(declare-fun elem_idx (Int) Int)",
		"(declare-fun refkind (Int) Int)",
		"(declare-fun refbase (Int) Int)",
		"(assert (forall ((x Int)) (! (=> (>= x 0) (= (refbase x) x)) :pattern ((refbase x))))) ;bg",
		"(declare-fun fieldloc (Int Int) Int)",
		"(declare-fun strcat (Int Int) Int)",
		"(declare-fun errcause (Iface) Iface)",
		"(declare-fun errIs (Iface Iface) Bool)",
		"(declare-fun errAs (Iface Int) Bool)",
		"(declare-fun fpow (Real Real) Real)",
		"(assert (forall ((e Iface) (t Iface)) (! (=> (and (= (i_tag e) 0) (not (= (i_tag t) 0))) (not (errIs e t))) :pattern ((errIs e t))))) ;bg",
		"(assert (forall ((e Iface)) (! (errIs e e) :pattern ((errIs e e))))) ;bg",
		"(declare-fun bytes2str ((Array Int Int) Int Int) Int)",
		"(assert (forall ((a Int) (i Int)) (! (and (= (elem_arr (elemref a i)) a) (= (elem_idx (elemref a i)) i) (< (elemref a i) 0) (= (refkind (elemref a i)) 1) (= (refbase (elemref a i)) (refbase a))) :pattern ((elemref a i))))) ;bg",
		"(define-fun tdiv ((x Int) (y Int)) Int (ite (>= x 0) (ite (> y 0) (div x y) (- (div x (- y)))) (ite (> y 0) (- (div (- x) y)) (div (- x) (- y)))))",
		"(define-fun trem ((x Int) (y Int)) Int (- x (* y (tdiv x y))))",
		"(declare-fun bor (Int Int) Int)",
		"(declare-fun band (Int Int) Int)",
		"(declare-fun bxor (Int Int) Int)",
		"(declare-fun bshl (Int Int) Int)",
		"(declare-fun bshr (Int Int) Int)",
		"(declare-fun strlen (Int) Int)",
		"(assert (forall ((s Int)) (! (>= (strlen s) 0) :pattern ((strlen s))))) ;bg",
		"(assert (= (strlen 0) 0))",
		"(declare-fun klen (Int) Int)",
		"(assert (forall ((k Int)) (! (and (>= (klen k) 0) (= (= (klen k) 0) (= k 0))) :pattern ((klen k))))) ;bg",
		"(assert (= (klen 0) 0))",
		// abstract keys: concatenation, suffix, prefix test (facts of byte strings under the lexicographic order, assumed)
		"(declare-fun kcat (Int Int) Int)",  // kcat(a,b) = a ++ b
		"(declare-fun kdrop (Int Int) Int)", // kdrop(x,n) = x[n:]
		"(declare-fun pend (Int) Int)",      // the least key above every key that has prefix p (exists iff hasSucc(p))
		"(declare-fun hasSucc (Int) Bool)",  // p is not empty and not all 0xFF
		"(define-fun khasprefix ((x Int) (p Int)) Bool (= x (kcat p (kdrop x (klen p)))))",
		"(assert (forall ((a Int) (b Int)) (! (=> (and (>= a 0) (>= b 0)) (and (>= (kcat a b) 0) (= (klen (kcat a b)) (+ (klen a) (klen b))) (= (kdrop (kcat a b) (klen a)) b) (<= a (kcat a b)))) :pattern ((kcat a b))))) ;bg",
		"(assert (forall ((a Int)) (! (=> (>= a 0) (= (kcat a 0) a)) :pattern ((kcat a 0))))) ;bg",
		"(assert (forall ((b Int)) (! (=> (>= b 0) (= (kcat 0 b) b)) :pattern ((kcat 0 b))))) ;bg",
		"(assert (forall ((a Int) (b1 Int) (b2 Int)) (! (=> (and (>= a 0) (>= b1 0) (>= b2 0)) (= (< b1 b2) (< (kcat a b1) (kcat a b2)))) :pattern ((kcat a b1) (kcat a b2))))) ;bg",
		"(assert (forall ((x Int) (n Int)) (! (>= (kdrop x n) 0) :pattern ((kdrop x n))))) ;bg",
		"(assert (forall ((p Int) (b Int)) (! (=> (and (hasSucc p) (>= p 0) (>= b 0)) (< (kcat p b) (pend p))) :pattern ((kcat p b) (pend p))))) ;bg",
		"(assert (forall ((p Int) (x Int)) (! (=> (and (hasSucc p) (>= p 0) (<= p x) (< x (pend p))) (khasprefix x p)) :pattern ((kdrop x (klen p)) (pend p))))) ;bg",
	)
	return s
}

func isByteSlice(t types.Type) bool {
	if sl, ok := t.Underlying().(*types.Slice); ok {
		if b, ok := sl.Elem().Underlying().(*types.Basic); ok && b.Kind() == types.Uint8 {
			return true
		}
	}
	return false
}

func sanitize(s string) string {
	var b strings.Builder
	for _, r := range s {
		switch {
		case r >= 'a' && r <= 'z', r >= 'A' && r <= 'Z', r >= '0' && r <= '9', r == '_':
			b.WriteRune(r)
		case r == '.' || r == '/':
			b.WriteByte('_')
		case r == '*':
			b.WriteString("P")
		case r == '[':
			b.WriteString("L")
		case r == ']':
			b.WriteString("R")
		default:
			b.WriteString("_")
		}
	}
	return b.String()
}

// shortTypeName gives a stable printable name for a Go type (used in heap/sort names).
func shortTypeName(t types.Type) string {
	q := func(p *types.Package) string {
		if p == nil {
			return ""
		}
		// package names are not unique (several "client", "errors", ...): qualify by a shortened import path
		path := p.Path()
		path = strings.TrimPrefix(path, "github.com/tikv/client-go/v2/")
		path = strings.TrimPrefix(path, "github.com/pingcap/kvproto/pkg/")
		path = strings.TrimPrefix(path, "github.com/")
		return path
	}
	return sanitize(aliasRe.ReplaceAllStringFunc(types.TypeString(t, q), func(m string) string {
		switch m {
		case "byte":
			return "uint8"
		case "rune":
			return "int32"
		case "any":
			return "interface{}"
		}
		return m
	}))
}

var aliasRe = regexp.MustCompile(`\b(byte|rune|any)\b`)

func (s *Sorts) sortOf(t types.Type) string {
	if t == nil {
		return SInt
	}
	switch u := t.Underlying().(type) {
	case *types.Basic:
		switch {
		case u.Info()&types.IsBoolean != 0:
			return SBool
		case u.Info()&types.IsFloat != 0:
			return SReal
		}
		return SInt
	case *types.Pointer, *types.Map, *types.Chan, *types.Signature:
		return SInt
	case *types.Slice:
		if s.keyMode && isByteSlice(t) {
			return SInt
		}
		return SSlice
	case *types.Interface:
		return SIface
	case *types.Struct:
		return s.structOf(t).name
	case *types.Array:
		return "(Array Int " + s.sortOf(u.Elem()) + ")"
	case *types.Tuple:
		return SInt
	}
	return SInt
}

func (s *Sorts) structOf(t types.Type) *structInfo {
	t = types.Unalias(t) // `type A = pkg.B` is pkg.B
	if si, ok := s.byType[t]; ok {
		return si
	}
	st := t.Underlying().(*types.Struct)
	tn := shortTypeName(t)
	if _, isNamed := t.(*types.Named); !isNamed {
		if _, isAlias := t.(*types.Alias); !isAlias {
			// anonymous struct: name by content
			tn = "anon_" + sanitize(st.String())
			if len(tn) > 60 {
				h := 0
				for _, c := range tn {
					h = h*31 + int(c)
					h &= 0xffffff
				}
				tn = fmt.Sprintf("%s_%x", tn[:40], h)
			}
		}
	}
	if si, ok := s.structs[tn]; ok {
		s.byType[t] = si
		return si
	}
	si := &structInfo{name: "St_" + tn, st: st, tname: tn}
	s.structs[tn] = si
	s.byType[t] = si
	var fs []string
	for i := 0; i < st.NumFields(); i++ {
		f := st.Field(i)
		fn := fmt.Sprintf("%s_%s", si.name, sanitize(f.Name()))
		if f.Name() == "_" {
			fn = fmt.Sprintf("%s_blank%d", si.name, i)
		}
		si.fields = append(si.fields, fn)
		fs = append(fs, fmt.Sprintf("(%s %s)", fn, s.sortOf(f.Type())))
	}
	if len(fs) == 0 {
		s.decls = append(s.decls, fmt.Sprintf("(declare-datatypes ((%s 0)) (((mk_%s))))", si.name, si.name))
	} else {
		s.decls = append(s.decls, fmt.Sprintf("(declare-datatypes ((%s 0)) (((mk_%s %s))))", si.name, si.name, strings.Join(fs, " ")))
	}
	return si
}

// subFunc returns the name of the injective function giving the sub-object reference of an
// aggregate-typed field (nested struct or array) of struct type T.
func (s *Sorts) subFunc(si *structInfo, field int) string {
	name := fmt.Sprintf("sub_%s_%s", si.tname, sanitize(si.st.Field(field).Name()))
	if !s.subFuncs[name] {
		s.subFuncs[name] = true
		k := s.subKinds
		s.subKinds++
		s.decls = append(s.decls,
			fmt.Sprintf("(declare-fun %s (Int) Int)", name),
			fmt.Sprintf("(declare-fun inv_%s (Int) Int)", name),
			fmt.Sprintf("(assert (forall ((p Int)) (! (and (= (inv_%s (%s p)) p) (< (%s p) 0) (= (refkind (%s p)) %d) (= (refbase (%s p)) (refbase p))) :pattern ((%s p))))) ;bg", name, name, name, name, k, name, name))
	}
	return name
}

func isAggregate(t types.Type) bool {
	switch t.Underlying().(type) {
	case *types.Struct, *types.Array:
		return true
	}
	return false
}

func isStruct(t types.Type) bool { _, ok := t.Underlying().(*types.Struct); return ok }

func isRefSort(t types.Type) bool {
	switch t.Underlying().(type) {
	case *types.Pointer, *types.Map, *types.Chan, *types.Signature:
		return true
	case *types.Basic:
		return t.Underlying().(*types.Basic).Kind() == types.UnsafePointer
	}
	return false
}

func intRange(t types.Type) (lo, hi *big.Int, ok bool) {
	b, isB := t.Underlying().(*types.Basic)
	if !isB || b.Info()&types.IsInteger == 0 {
		return nil, nil, false
	}
	var w uint
	signed := b.Info()&types.IsUnsigned == 0
	switch b.Kind() {
	case types.Int8, types.Uint8:
		w = 8
	case types.Int16, types.Uint16:
		w = 16
	case types.Int32, types.Uint32:
		w = 32
	case types.UntypedInt, types.UntypedRune:
		return nil, nil, false
	default:
		w = 64
	}
	if signed {
		lo = new(big.Int).Neg(pow2(w - 1))
		hi = new(big.Int).Sub(pow2(w-1), big.NewInt(1))
	} else {
		lo = big.NewInt(0)
		hi = new(big.Int).Sub(pow2(w), big.NewInt(1))
	}
	return lo, hi, true
}

func intWidth(t types.Type) (w uint, signed bool, ok bool) {
	lo, hi, ok := intRange(t)
	if !ok {
		return 0, false, false
	}
	signed = lo.Sign() < 0
	n := new(big.Int).Sub(hi, lo)
	return uint(n.BitLen()), signed, true
}

// wrapTo converts the mathematical integer x to Go type t's representation (two's complement wrap).
func wrapTo(t types.Type, x string) string {
	w, signed, ok := intWidth(t)
	if !ok {
		return x
	}
	m := pow2(w).String()
	if !signed {
		return app("mod", x, m)
	}
	h := pow2(w - 1).String()
	return app("-", app("mod", app("+", x, h), m), h)
}

func sortedKeys[V any](m map[string]V) []string {
	ks := make([]string, 0, len(m))
	for k := range m {
		ks = append(ks, k)
	}
	sort.Strings(ks)
	return ks
}
