package main

// Translation of contract expressions to SMT terms.

import (
	"regexp"
	"os"
	"fmt"
	"go/ast"
	"go/constant"
	"go/parser"
	"go/token"
	"go/types"
	"math/big"
	"strconv"
	"strings"

	"golang.org/x/tools/go/ssa"
)

type evalCtx struct {
	fr      *Frame
	run     *Run
	st      *State
	old     *State
	binds   map[string]Val
	btypes  map[string]types.Type
	bound   map[string]TV
	pkg     *types.Package
	useVars bool
	rec     *loopRec
	depth   int
	inOld   bool
	inPrev    bool
	varsSt    *State // state whose source-variable bindings are used (stays the current one inside old())
	absIdx    *absIndex
	varsAfter bool // parameters (entry values) shadow current source variables (ensures clauses)
	undefLocals bool // a local variable without a value on this path evaluates to an arbitrary value
	wantRef     bool // ref(x.f): the address of an aggregate field instead of its value
}

type absIndex struct {
	slice, iTerm, k string
}

// goExprQuiet translates without emitting definitions that could be left dangling (the translation of a
// slice-valued sub-expression has no side effects other than harmless heap declarations).
func (cx *evalCtx) goExprQuiet(e ast.Expr) (TV, error) { return cx.goExpr(e) }

// findIndexedBy returns the first expression s such that s[v] occurs in e and s does not mention v.
func findIndexedBy(e *SExpr, v string) ast.Expr {
	if e == nil {
		return nil
	}
	switch e.Op {
	case "imp", "iff":
		if r := findIndexedBy(e.R, v); r != nil {
			return r
		}
		return findIndexedBy(e.L, v)
	case "forall", "exists":
		for _, p := range e.Vars {
			if p.Name == v {
				return nil
			}
		}
		return findIndexedBy(e.Body, v)
	case "go":
		var found ast.Expr
		ast.Inspect(e.Go, func(n ast.Node) bool {
			if found != nil {
				return false
			}
			if ix, ok := n.(*ast.IndexExpr); ok {
				if id, ok := ix.Index.(*ast.Ident); ok && id.Name == v && !mentions(ix.X, v) && !hasHole(ix.X) {
					found = ix.X
					return false
				}
			}
			return true
		})
		if found != nil {
			return found
		}
		for _, h := range e.Holes {
			if r := findIndexedBy(h, v); r != nil {
				return r
			}
		}
	}
	return nil
}

func mentions(e ast.Expr, v string) bool {
	m := false
	ast.Inspect(e, func(n ast.Node) bool {
		if id, ok := n.(*ast.Ident); ok && id.Name == v {
			m = true
		}
		return !m
	})
	return m
}

func hasHole(e ast.Expr) bool {
	m := false
	ast.Inspect(e, func(n ast.Node) bool {
		if id, ok := n.(*ast.Ident); ok && strings.HasPrefix(id.Name, "hole__") {
			m = true
		}
		return !m
	})
	return m
}

func (cx *evalCtx) sub() *evalCtx {
	n := *cx
	return &n
}

func (cx *evalCtx) errf(format string, a ...interface{}) error {
	return fmt.Errorf(format, a...)
}

func (cx *evalCtx) boolExpr(e *SExpr) (string, error) {
	tv, err := cx.expr(e)
	if err != nil {
		return "", err
	}
	if tv.Sort != SBool {
		return "", fmt.Errorf("expression is not boolean (sort %s)", tv.Sort)
	}
	return tv.S, nil
}

func (cx *evalCtx) expr(e *SExpr) (TV, error) {
	switch e.Op {
	case "imp":
		l, err := cx.boolExpr(e.L)
		if err != nil {
			return TV{}, err
		}
		r, err := cx.boolExpr(e.R)
		if err != nil {
			return TV{}, err
		}
		return TV{implies(l, r), SBool, nil}, nil
	case "iff":
		l, err := cx.boolExpr(e.L)
		if err != nil {
			return TV{}, err
		}
		r, err := cx.boolExpr(e.R)
		if err != nil {
			return TV{}, err
		}
		return TV{eq(l, r), SBool, nil}, nil
	case "forall", "exists":
		n := cx.sub()
		n.bound = map[string]TV{}
		for k, v := range cx.bound {
			n.bound[k] = v
		}
		var decl []string
		var guards []string
		for _, p := range e.Vars {
			t, err := cx.resolveType(p.Type)
			if err != nil {
				return TV{}, err
			}
			sort := cx.run.eng.sorts.sortOf(t)
			name := fmt.Sprintf("q_%s_%d", p.Name, cx.run.nconst)
			cx.run.nconst++
			n.bound[p.Name] = TV{name, sort, t}
			decl = append(decl, fmt.Sprintf("(%s %s)", name, sort))
			if _, isPtr := t.Underlying().(*types.Pointer); !isPtr {
				if p.Type != "int" { // `int` bound variables are mathematical integers (indices)
					guards = append(guards, cx.run.typeInv(name, t, cx.st))
				}
			}
		}
		// Re-parametrisation (single int variable used as a slice index): quantify over the absolute array
		// index k = off + i instead of i, so that the trigger (select (select E arr) k) contains no arithmetic.
		pattern := ""
		if len(e.Vars) == 1 && e.Vars[0].Type == "int" {
			if base := findIndexedBy(e.Body, e.Vars[0].Name); base != nil {
				if bt, err := n.goExprQuiet(base); err == nil && bt.Sort == SSlice && bt.T != nil && !strings.Contains(bt.S, n.bound[e.Vars[0].Name].S) {
					if sl, ok := bt.T.Underlying().(*types.Slice); ok && !isAggregate(sl.Elem()) {
						k := n.bound[e.Vars[0].Name]
						off := app("s_off", bt.S)
						n.bound[e.Vars[0].Name] = TV{app("-", k.S, off), SInt, k.T}
						n.absIdx = &absIndex{slice: bt.S, iTerm: app("-", k.S, off), k: k.S}
						_, h := cx.run.elemHeap(n.st, sl.Elem())
						pattern = app("select", app("select", h, app("s_arr", bt.S)), k.S)
					}
				}
			}
		}
		b, err := n.boolExpr(e.Body)
		if err != nil {
			return TV{}, err
		}
		g := and(guards...)
		if pattern == "" && e.Op == "forall" && len(e.Vars) == 1 {
			// no array trigger: use an application of an uninterpreted (spec or key-theory) function to the bound variable,
			// so that the solver instantiates by matching instead of model-based search
			outer := map[string]bool{}
			for _, v := range cx.bound {
				outer[v.S] = true
			}
			pattern = findUFPattern(b, n.bound[e.Vars[0].Name].S, outer)
		}
		if e.Op == "forall" {
			body := implies(g, b)
			if pattern != "" && strings.Contains(body, pattern) {
				body = fmt.Sprintf("(! %s :pattern (%s))", body, pattern)
			}
			return TV{fmt.Sprintf("(forall (%s) %s)", strings.Join(decl, " "), body), SBool, nil}, nil
		}
		return TV{fmt.Sprintf("(exists (%s) %s)", strings.Join(decl, " "), and(g, b)), SBool, nil}, nil
	case "go":
		n := cx
		if len(e.Holes) > 0 {
			n = cx.sub()
			n.binds = map[string]Val{}
			for k, v := range cx.binds {
				n.binds[k] = v
			}
			for name, h := range e.Holes {
				tv, err := cx.expr(h)
				if err != nil {
					return TV{}, err
				}
				n.binds[name] = tv
			}
		}
		return n.goExpr(e.Go)
	}
	return TV{}, fmt.Errorf("bad spec expression")
}

var basicTypes = map[string]types.Type{
	"int": types.Typ[types.Int], "int8": types.Typ[types.Int8], "int16": types.Typ[types.Int16], "int32": types.Typ[types.Int32], "int64": types.Typ[types.Int64],
	"uint": types.Typ[types.Uint], "uint8": types.Typ[types.Uint8], "uint16": types.Typ[types.Uint16], "uint32": types.Typ[types.Uint32], "uint64": types.Typ[types.Uint64],
	"byte": types.Typ[types.Uint8], "bool": types.Typ[types.Bool], "string": types.Typ[types.String], "uintptr": types.Typ[types.Uintptr],
	"float64": types.Typ[types.Float64], "rune": types.Typ[types.Int32], "error": types.Universe.Lookup("error").Type(),
	"any": types.Universe.Lookup("any").Type(),
}

func (cx *evalCtx) resolveType(s string) (types.Type, error) {
	e, err := parser.ParseExpr(s)
	if err != nil {
		return nil, fmt.Errorf("bad type %q", s)
	}
	return cx.typeOfExpr(e)
}

func (cx *evalCtx) lookupPkg(name string) *types.Package {
	if cx.pkg == nil {
		return nil
	}
	if cx.pkg.Name() == name {
		return cx.pkg
	}
	for _, p := range cx.pkg.Imports() {
		if p.Name() == name {
			return p
		}
	}
	// an import alias used in the package's source files
	if lp := cx.run.eng.byPath[cx.pkg.Path()]; lp != nil {
		for _, f := range lp.Syntax {
			for _, im := range f.Imports {
				if im.Name != nil && im.Name.Name == name {
					path := strings.Trim(im.Path.Value, "\"")
					for _, p := range cx.pkg.Imports() {
						if p.Path() == path {
							return p
						}
					}
				}
			}
		}
	}
	// any loaded package with that name
	for _, p := range cx.run.eng.prog.AllPackages() {
		if p.Pkg.Name() == name {
			return p.Pkg
		}
	}
	return nil
}

func (cx *evalCtx) typeOfExpr(e ast.Expr) (types.Type, error) {
	switch x := e.(type) {
	case *ast.Ident:
		if t, ok := basicTypes[x.Name]; ok {
			return t, nil
		}
		if cx.pkg != nil {
			if o := cx.pkg.Scope().Lookup(x.Name); o != nil {
				if tn, ok := o.(*types.TypeName); ok {
					return tn.Type(), nil
				}
			}
		}
		return nil, fmt.Errorf("unknown type %s", x.Name)
	case *ast.StarExpr:
		t, err := cx.typeOfExpr(x.X)
		if err != nil {
			return nil, err
		}
		return types.NewPointer(t), nil
	case *ast.ArrayType:
		t, err := cx.typeOfExpr(x.Elt)
		if err != nil {
			return nil, err
		}
		if x.Len == nil {
			return types.NewSlice(t), nil
		}
		if bl, ok := x.Len.(*ast.BasicLit); ok {
			n, _ := strconv.ParseInt(bl.Value, 0, 64)
			return types.NewArray(t, n), nil
		}
	case *ast.MapType:
		k, err := cx.typeOfExpr(x.Key)
		if err != nil {
			return nil, err
		}
		v, err := cx.typeOfExpr(x.Value)
		if err != nil {
			return nil, err
		}
		return types.NewMap(k, v), nil
	case *ast.SelectorExpr:
		if id, ok := x.X.(*ast.Ident); ok {
			if p := cx.lookupPkg(id.Name); p != nil {
				if o := p.Scope().Lookup(x.Sel.Name); o != nil {
					if tn, ok := o.(*types.TypeName); ok {
						return tn.Type(), nil
					}
				}
			}
		}
	case *ast.ParenExpr:
		return cx.typeOfExpr(x.X)
	}
	return nil, fmt.Errorf("unsupported type expression")
}

func numeral(s string) (*big.Int, bool) {
	if s == "" {
		return nil, false
	}
	neg := false
	if strings.HasPrefix(s, "(- ") && strings.HasSuffix(s, ")") {
		neg = true
		s = s[3 : len(s)-1]
	}
	for _, c := range s {
		if c < '0' || c > '9' {
			return nil, false
		}
	}
	b, ok := new(big.Int).SetString(s, 10)
	if !ok {
		return nil, false
	}
	if neg {
		b.Neg(b)
	}
	return b, true
}

// valToTV converts a bound value into a term, loading address-held variables from the current state.
func (cx *evalCtx) valToTV(v Val, t types.Type) (TV, error) {
	switch x := v.(type) {
	case TV:
		if x.T == nil {
			x.T = t
		}
		return x, nil
	case *Addr:
		return cx.run.load(cx.st, x), nil
	case *Closure:
		return cx.run.toTV(cx.st, x, t), nil
	case *OneSided:
		return cx.run.materialize(x), nil
	}
	return TV{}, fmt.Errorf("value not usable in a contract")
}

func (cx *evalCtx) ident(name string) (TV, error) {
	if tv, ok := cx.bound[name]; ok {
		return tv, nil
	}
	switch name {
	case "true":
		return TV{"true", SBool, types.Typ[types.Bool]}, nil
	case "false":
		return TV{"false", SBool, types.Typ[types.Bool]}, nil
	case "nil":
		return TV{"nil", "nil", nil}, nil
	}
	if cx.varsAfter {
		if v, ok := cx.binds[name]; ok {
			return cx.valToTV(v, cx.btypes[name])
		}
	}
	vs := cx.st
	if cx.varsSt != nil {
		vs = cx.varsSt
	}
	// a named result that lives in memory: the bare name means the result even where a local of the same name shadows it
	if cx.useVars && !cx.inOld && cx.fr != nil && cx.fr.namedRes != nil && cx.binds[name] == nil {
		if a, ok := cx.fr.namedRes[name]; ok {
			return cx.run.load(cx.st, a), nil
		}
	}
	if cx.useVars && (!cx.inOld || cx.varsAfter) {
		if v, ok := vs.vars[name]; ok {
			if o, isO := v.(*OneSided); isO {
				tv := cx.run.materialize(o)
				vs.vars[name] = tv
				return tv, nil
			}
			if _, isAddr := v.(*Addr); !isAddr {
				return cx.valToTV(v, nil)
			}
		}
	}
	if cx.useVars && !cx.inOld {
		if v, ok := vs.vars[name]; ok {
			return cx.valToTV(v, nil)
		}
		if v, ok := vs.vars["&"+name]; ok {
			switch a := v.(type) {
			case *Addr:
				return cx.run.load(cx.st, a), nil
			case TV: // aggregate variable in memory
				if pt, ok := a.T.Underlying().(*types.Pointer); ok {
					return cx.run.loadAt(cx.st, a.S, pt.Elem()), nil
				}
			}
		}
	}
	if v, ok := cx.binds[name]; ok {
		return cx.valToTV(v, cx.btypes[name])
	}
	if cx.pkg != nil {
		if o := cx.pkg.Scope().Lookup(name); o != nil {
			return cx.object(o)
		}
	}
	if o := types.Universe.Lookup(name); o != nil {
		if c, ok := o.(*types.Const); ok {
			return cx.constTV(c)
		}
	}
	if (cx.varsAfter || cx.undefLocals) && cx.fr != nil && cx.fr.fn != nil {
		// a local variable of the function that is not (yet) defined on this return path: its value is arbitrary here, so
		// the clause has to hold whatever it is (clauses normally guard such paths out by the result value)
		if t := cx.run.eng.localVarType(cx.fr.fn, name); t != nil {
			key := "undef:" + name
			if v, ok := cx.st.vars[key]; ok {
				return cx.valToTV(v, t)
			}
			tv := cx.run.freshOf(cx.st, "undef_"+name, t)
			cx.st.vars[key] = tv
			return tv, nil
		}
	}
	if name == "rangeindex" && cx.undefLocals {
		// the hidden index of a range loop, at a point that is not inside (or behind) any range loop on this path: arbitrary
		key := "undef:rangeindex"
		if v, ok := cx.st.vars[key]; ok {
			return cx.valToTV(v, types.Typ[types.Int])
		}
		tv := cx.run.freshOf(cx.st, "undef_rangeindex", types.Typ[types.Int])
		cx.st.vars[key] = tv
		return tv, nil
	}
	return TV{}, fmt.Errorf("unknown name %q", name)
}

func (cx *evalCtx) constTV(c *types.Const) (TV, error) {
	v := c.Val()
	switch v.Kind() {
	case constant.Bool:
		if constant.BoolVal(v) {
			return TV{"true", SBool, c.Type()}, nil
		}
		return TV{"false", SBool, c.Type()}, nil
	case constant.Int:
		return TV{bigNum(mustBig(v)), SInt, c.Type()}, nil
	case constant.String:
		return TV{num(int64(cx.run.eng.strID(constant.StringVal(v)))), SInt, c.Type()}, nil
	case constant.Float:
		if i := constant.ToInt(v); i.Kind() == constant.Int {
			return TV{bigNum(mustBig(i)), SInt, c.Type()}, nil
		}
	}
	return TV{}, fmt.Errorf("unsupported constant %s", c.Name())
}

func (cx *evalCtx) object(o types.Object) (TV, error) {
	switch x := o.(type) {
	case *types.Const:
		return cx.constTV(x)
	case *types.Var:
		// package-level variable
		if g, ok := cx.run.eng.prog.Package(x.Pkg()).Members[x.Name()].(*ssa.Global); ok {
			if cx.fr == nil {
				cx.fr = &Frame{run: cx.run}
			}
			v := cx.fr.val(cx.st, g)
			if a, ok := v.(*Addr); ok {
				return cx.run.load(cx.st, a), nil
			}
			if tv, ok := v.(TV); ok {
				return cx.run.loadAt(cx.st, tv.S, x.Type()), nil
			}
		}
	case *types.Nil:
		return TV{"nil", "nil", nil}, nil
	}
	return TV{}, fmt.Errorf("unsupported object %s", o.Name())
}

// coerceNil gives nil the zero value of the other operand's sort.
func (cx *evalCtx) coerceNil(a, b TV) (TV, TV) {
	if a.Sort == "nil" && b.Sort != "nil" {
		a = cx.nilOf(b)
	}
	if b.Sort == "nil" && a.Sort != "nil" {
		b = cx.nilOf(a)
	}
	return a, b
}

func (cx *evalCtx) nilOf(o TV) TV {
	switch o.Sort {
	case SSlice:
		return TV{"(mk_slice 0 0 0 0)", SSlice, o.T}
	case SIface:
		return TV{"(mk_iface 0 0)", SIface, o.T}
	}
	return TV{"0", SInt, o.T}
}

func (cx *evalCtx) goExpr(e ast.Expr) (TV, error) {
	r := cx.run
	s := r.eng.sorts
	switch x := e.(type) {
	case *ast.ParenExpr:
		return cx.goExpr(x.X)
	case *ast.Ident:
		return cx.ident(x.Name)
	case *ast.BasicLit:
		switch x.Kind {
		case token.INT:
			b, ok := new(big.Int).SetString(x.Value, 0)
			if !ok {
				return TV{}, fmt.Errorf("bad integer literal %s", x.Value)
			}
			return TV{bigNum(b), SInt, nil}, nil
		case token.STRING:
			str, err := strconv.Unquote(x.Value)
			if err != nil {
				return TV{}, err
			}
			return TV{num(int64(r.eng.strID(str))), SInt, types.Typ[types.String]}, nil
		case token.CHAR:
			str, err := strconv.Unquote(x.Value)
			if err != nil || len(str) == 0 {
				return TV{}, fmt.Errorf("bad char literal")
			}
			return TV{num(int64([]rune(str)[0])), SInt, nil}, nil
		}
	case *ast.SelectorExpr:
		if id, ok := x.X.(*ast.Ident); ok {
			if _, isBound := cx.bound[id.Name]; !isBound {
				if _, isBind := cx.binds[id.Name]; !isBind {
					_, isVar := cx.st.vars[id.Name]
					_, isAVar := cx.st.vars["&"+id.Name]
					isLocal := cx.fr != nil && cx.fr.fn != nil && cx.run.eng.localVarType(cx.fr.fn, id.Name) != nil
					if !(cx.useVars && (isVar || isAVar)) && !isLocal {
						if p := cx.lookupPkg(id.Name); p != nil && (cx.pkg == nil || cx.pkg.Scope().Lookup(id.Name) == nil) {
							if o := p.Scope().Lookup(x.Sel.Name); o != nil {
								return cx.object(o)
							}
							return TV{}, fmt.Errorf("unknown %s.%s", id.Name, x.Sel.Name)
						}
					}
				}
			}
		}
		base, err := cx.goExpr(x.X)
		if err != nil {
			return TV{}, err
		}
		return cx.selectField(base, x.Sel.Name)
	case *ast.StarExpr:
		p, err := cx.goExpr(x.X)
		if err != nil {
			return TV{}, err
		}
		if p.T == nil {
			return TV{}, fmt.Errorf("dereference of untyped value")
		}
		pt, ok := p.T.Underlying().(*types.Pointer)
		if !ok {
			return TV{}, fmt.Errorf("dereference of non-pointer")
		}
		return r.loadAt(cx.st, p.S, pt.Elem()), nil
	case *ast.UnaryExpr:
		v, err := cx.goExpr(x.X)
		if err != nil {
			return TV{}, err
		}
		switch x.Op {
		case token.NOT:
			return TV{not(v.S), SBool, v.T}, nil
		case token.SUB:
			return TV{app("-", v.S), SInt, v.T}, nil
		case token.XOR:
			if v.T != nil {
				if _, signed, ok := intWidth(v.T); ok && !signed {
					_, hi, _ := intRange(v.T)
					return TV{app("-", bigNum(hi), v.S), SInt, v.T}, nil
				}
			}
			return TV{app("-", app("-", v.S), "1"), SInt, v.T}, nil
		}
	case *ast.BinaryExpr:
		return cx.binary(x)
	case *ast.IndexExpr:
		base, err := cx.goExpr(x.X)
		if err != nil {
			return TV{}, err
		}
		idx, err := cx.goExpr(x.Index)
		if err != nil {
			return TV{}, err
		}
		return cx.index(base, idx)
	case *ast.SliceExpr:
		base, err := cx.goExpr(x.X)
		if err != nil {
			return TV{}, err
		}
		if base.Sort != SSlice {
			return TV{}, fmt.Errorf("slicing a non-slice in a contract")
		}
		lo, hi := "0", app("s_len", base.S)
		if x.Low != nil {
			l, err := cx.goExpr(x.Low)
			if err != nil {
				return TV{}, err
			}
			lo = l.S
		}
		if x.High != nil {
			h, err := cx.goExpr(x.High)
			if err != nil {
				return TV{}, err
			}
			hi = h.S
		}
		return TV{app("mk_slice", app("s_arr", base.S), add(app("s_off", base.S), lo), sub(hi, lo), sub(app("s_cap", base.S), lo)), SSlice, base.T}, nil
	case *ast.CallExpr:
		return cx.call(x)
	case *ast.TypeAssertExpr:
		v, err := cx.goExpr(x.X)
		if err != nil {
			return TV{}, err
		}
		t, err := cx.typeOfExpr(x.Type)
		if err != nil {
			return TV{}, err
		}
		if v.Sort != SIface {
			return TV{}, fmt.Errorf("type assertion on non-interface")
		}
		if isRefSort(t) {
			return TV{app("i_val", v.S), SInt, t}, nil
		}
		sort := s.sortOf(t)
		return TV{app("un"+r.boxName(sort), app("i_val", v.S)), sort, t}, nil
	}
	return TV{}, fmt.Errorf("unsupported contract expression %T", e)
}

func (cx *evalCtx) selectField(base TV, name string) (TV, error) {
	r := cx.run
	s := r.eng.sorts
	if base.T == nil {
		return TV{}, fmt.Errorf("field %s of untyped value", name)
	}
	t := base.T
	// ghost fields
	if gf := r.eng.ghostField(t, name); gf != nil {
		h := r.heapGet(cx.st, gf.heap)
		return TV{app("select", h, base.S), gf.sort, gf.typ}, nil
	}
	obj, path, _ := types.LookupFieldOrMethod(t, true, cx.pkg, name)
	if obj == nil {
		// unexported field of another package: retry with the defining package
		if nt := namedOf(t); nt != nil && nt.Obj().Pkg() != nil {
			obj, path, _ = types.LookupFieldOrMethod(t, true, nt.Obj().Pkg(), name)
		}
	}
	fv, ok := obj.(*types.Var)
	if !ok || !fv.IsField() {
		return TV{}, fmt.Errorf("no field %s in %s", name, t)
	}
	cur := base
	for _, fi := range path {
		ct := cur.T
		if pt, ok := ct.Underlying().(*types.Pointer); ok {
			// through a pointer: read the heap
			si := s.structOf(pt.Elem())
			ft := si.st.Field(fi).Type()
			if isAggregate(ft) {
				// stay by reference
				cur = TV{app(s.subFunc(si, fi), cur.S), SInt, types.NewPointer(ft)}
				continue
			}
			cur = cx.ranged(r.loadField(cx.st, cur.S, si, fi))
			continue
		}
		si := s.structOf(ct)
		ft := si.st.Field(fi).Type()
		cur = TV{app(si.fields[fi], cur.S), s.sortOf(ft), ft}
	}
	// a by-reference aggregate at the end of the path is loaded as a value (unless its address is what is asked for: ref(x.f))
	if pt, ok := cur.T.Underlying().(*types.Pointer); ok && isAggregate(pt.Elem()) && !types.Identical(cur.T, fv.Type()) {
		if cx.wantRef {
			return cur, nil
		}
		return r.loadAt(cx.st, cur.S, pt.Elem()), nil
	}
	return cur, nil
}

func namedOf(t types.Type) *types.Named {
	if p, ok := t.(*types.Pointer); ok {
		t = p.Elem()
	}
	if a, ok := t.(*types.Alias); ok {
		t = types.Unalias(a)
	}
	n, _ := t.(*types.Named)
	return n
}

func (cx *evalCtx) index(base, idx TV) (TV, error) {
	r := cx.run
	s := r.eng.sorts
	if base.T == nil {
		if strings.HasPrefix(base.Sort, "(Array ") {
			return TV{app("select", base.S, idx.S), arrayElemSort(base.Sort), nil}, nil
		}
		return TV{}, fmt.Errorf("indexing untyped value")
	}
	switch t := base.T.Underlying().(type) {
	case *types.Slice:
		if base.Sort != SSlice {
			return TV{}, fmt.Errorf("indexing an abstract key")
		}
		et := t.Elem()
		if isAggregate(et) {
			ref := app("elemref", app("s_arr", base.S), app("+", app("s_off", base.S), idx.S))
			return r.loadAt(cx.st, ref, et), nil
		}
		_, h := r.elemHeap(cx.st, et)
		if cx.absIdx != nil && idx.S == cx.absIdx.iTerm && base.S == cx.absIdx.slice {
			return cx.ranged(TV{app("select", app("select", h, app("s_arr", base.S)), cx.absIdx.k), s.sortOf(et), et}), nil
		}
		return cx.ranged(TV{app("select", app("select", h, app("s_arr", base.S)), add(app("s_off", base.S), idx.S)), s.sortOf(et), et}), nil
	case *types.Array:
		return TV{app("select", base.S, idx.S), s.sortOf(t.Elem()), t.Elem()}, nil
	case *types.Map:
		// Go semantics: a missing key (or a nil map) reads as the zero value
		mi := r.mapHeaps(cx.st, t)
		return TV{ite(and(not(eq(base.S, "0")), app("select", app("select", mi.dom, base.S), idx.S)), app("select", app("select", mi.m, base.S), idx.S), r.zero(t.Elem()).S), mi.vsort, t.Elem()}, nil
	case *types.Pointer:
		if at, ok := t.Elem().Underlying().(*types.Array); ok {
			_, h := r.elemHeap(cx.st, at.Elem())
			return TV{app("select", app("select", h, base.S), idx.S), s.sortOf(at.Elem()), at.Elem()}, nil
		}
	}
	return TV{}, fmt.Errorf("cannot index %s", base.T)
}

// ranged asserts the type range of a heap value read inside a contract when the term is ground.
func (cx *evalCtx) ranged(tv TV) TV {
	if tv.T == nil || strings.Contains(tv.S, "q_") {
		return tv
	}
	if _, _, ok := intRange(tv.T); ok {
		cx.run.assumeGlobal(cx.run.typeInv(tv.S, tv.T, cx.st))
	}
	return tv
}

func arrayElemSort(sort string) string {
	// "(Array Int X)" -> X
	inner := strings.TrimSuffix(strings.TrimPrefix(sort, "(Array "), ")")
	// skip index sort
	d := 0
	for i := 0; i < len(inner); i++ {
		switch inner[i] {
		case '(':
			d++
		case ')':
			d--
		case ' ':
			if d == 0 {
				return inner[i+1:]
			}
		}
	}
	return SInt
}

func (cx *evalCtx) binary(x *ast.BinaryExpr) (TV, error) {
	a, err := cx.goExpr(x.X)
	if err != nil {
		return TV{}, err
	}
	b, err := cx.goExpr(x.Y)
	if err != nil {
		return TV{}, err
	}
	a, b = cx.coerceNil(a, b)
	bt := types.Typ[types.Bool]
	switch x.Op {
	case token.LAND:
		return TV{and(a.S, b.S), SBool, bt}, nil
	case token.LOR:
		return TV{or(a.S, b.S), SBool, bt}, nil
	case token.EQL, token.NEQ:
		if a.Sort != b.Sort {
			return TV{}, fmt.Errorf("comparison of different sorts %s and %s", a.Sort, b.Sort)
		}
		var f string
		if a.Sort == SSlice {
			// slice equality in contracts: only against nil
			if b.S == "(mk_slice 0 0 0 0)" {
				f = eq(app("s_arr", a.S), "0")
			} else if a.S == "(mk_slice 0 0 0 0)" {
				f = eq(app("s_arr", b.S), "0")
			} else {
				f = eq(a.S, b.S)
			}
		} else {
			f = eq(a.S, b.S)
		}
		if x.Op == token.NEQ {
			f = not(f)
		}
		return TV{f, SBool, bt}, nil
	case token.LSS, token.LEQ, token.GTR, token.GEQ:
		op := map[token.Token]string{token.LSS: "<", token.LEQ: "<=", token.GTR: ">", token.GEQ: ">="}[x.Op]
		return TV{app(op, a.S, b.S), SBool, bt}, nil
	case token.ADD:
		return TV{app("+", a.S, b.S), SInt, pickT(a, b)}, nil
	case token.SUB:
		return TV{app("-", a.S, b.S), SInt, pickT(a, b)}, nil
	case token.MUL:
		return TV{app("*", a.S, b.S), SInt, pickT(a, b)}, nil
	case token.QUO:
		return TV{app("div", a.S, b.S), SInt, pickT(a, b)}, nil
	case token.REM:
		return TV{app("mod", a.S, b.S), SInt, pickT(a, b)}, nil
	case token.AND, token.OR, token.XOR, token.SHL, token.SHR, token.AND_NOT:
		t := pickT(a, b)
		if x.Op == token.SHL || x.Op == token.SHR {
			t = a.T
		}
		if t == nil {
			t = types.Typ[types.Uint64]
		}
		if _, _, ok := intWidth(t); !ok {
			t = types.Typ[types.Uint64]
		}
		return cx.run.binop(cx.st, x.Op, a, b, t, t, nil), nil
	}
	return TV{}, fmt.Errorf("unsupported operator %s", x.Op)
}

func pickT(a, b TV) types.Type {
	if a.T != nil {
		return a.T
	}
	return b.T
}

func (cx *evalCtx) args(es []ast.Expr) ([]TV, error) {
	var out []TV
	for _, e := range es {
		v, err := cx.goExpr(e)
		if err != nil {
			return nil, err
		}
		out = append(out, v)
	}
	return out, nil
}

func (cx *evalCtx) call(x *ast.CallExpr) (TV, error) {
	r := cx.run
	s := r.eng.sorts
	if id, ok := x.Fun.(*ast.Ident); ok {
		switch id.Name {
		case "old":
			if len(x.Args) != 1 {
				return TV{}, fmt.Errorf("old takes one argument")
			}
			if cx.old == nil {
				return TV{}, fmt.Errorf("old() not available here")
			}
			n := cx.sub()
			if n.varsSt == nil {
				n.varsSt = cx.st
			}
			n.st = cx.old
			n.inOld = true
			return n.goExpr(x.Args[0])
		case "final":
			// final(p): the current value of a parameter that the function reassigns (a bare parameter name in an
			// ensures clause means its value at entry)
			if len(x.Args) != 1 {
				return TV{}, fmt.Errorf("final takes one argument")
			}
			n := cx.sub()
			n.varsAfter = false
			n.useVars = true
			return n.goExpr(x.Args[0])
		case "prev":
			if cx.rec == nil {
				// at the loop head itself prev(e) == e
				return cx.goExpr(x.Args[0])
			}
			n := cx.sub()
			n.st = cx.rec.head
			n.inPrev = true
			return n.goExpr(x.Args[0])
		case "len", "cap":
			a, err := cx.goExpr(x.Args[0])
			if err != nil {
				return TV{}, err
			}
			it := types.Typ[types.Int]
			if a.Sort == SSlice {
				return TV{app("s_"+id.Name, a.S), SInt, it}, nil
			}
			if a.T != nil {
				switch t := a.T.Underlying().(type) {
				case *types.Map:
					mi := r.mapHeaps(cx.st, t)
					return TV{ite(eq(a.S, "0"), "0", app("select", mi.ln, a.S)), SInt, it}, nil
				case *types.Array:
					return TV{num(t.Len()), SInt, it}, nil
				case *types.Basic:
					if t.Info()&types.IsString != 0 {
						return TV{app("strlen", a.S), SInt, it}, nil
					}
				case *types.Slice:
					if s.keyMode {
						return TV{ite(eq(a.S, "0"), "0", app("klen", a.S)), SInt, it}, nil
					}
				}
			}
			return TV{}, fmt.Errorf("len of unsupported value")
		case "ite":
			as, err := cx.args(x.Args)
			if err != nil {
				return TV{}, err
			}
			if len(as) != 3 {
				return TV{}, fmt.Errorf("ite takes three arguments")
			}
			as[1], as[2] = cx.coerceNil(as[1], as[2])
			return TV{ite(as[0].S, as[1].S, as[2].S), as[1].Sort, pickT(as[1], as[2])}, nil
		case "min", "max":
			as, err := cx.args(x.Args)
			if err != nil {
				return TV{}, err
			}
			op := "<="
			if id.Name == "max" {
				op = ">="
			}
			return TV{ite(app(op, as[0].S, as[1].S), as[0].S, as[1].S), SInt, pickT(as[0], as[1])}, nil
		case "inDom":
			// inDom(m, k): key present in map
			as, err := cx.args(x.Args)
			if err != nil {
				return TV{}, err
			}
			mt, ok := as[0].T.Underlying().(*types.Map)
			if !ok {
				return TV{}, fmt.Errorf("inDom on non-map")
			}
			mi := r.mapHeaps(cx.st, mt)
			return TV{and(not(eq(as[0].S, "0")), app("select", app("select", mi.dom, as[0].S), as[1].S)), SBool, types.Typ[types.Bool]}, nil
		case "allocated":
			// allocated(x): the object x exists at this point (it is not one that will be allocated later)
			as, err := cx.args(x.Args)
			if err != nil {
				return TV{}, err
			}
			ref := as[0].S
			if as[0].Sort == SSlice {
				ref = app("s_arr", ref)
			}
			return TV{app("<", app("refbase", ref), cx.st.frontier), SBool, types.Typ[types.Bool]}, nil
		case "ctxDone":
			// ctxDone(ctx): ghost - a receive from ctx.Done() has been selected (the function has observed the end of ctx)
			as, err := cx.args(x.Args)
			if err != nil {
				return TV{}, err
			}
			name := r.eng.regHeap("GH_ctxdone", "(Array Iface Bool)", nil)
			return TV{app("select", r.heapGet(cx.st, name), as[0].S), SBool, types.Typ[types.Bool]}, nil
		case "fresh":
			// fresh(x): the object x was allocated during the call (not reachable from the pre-state)
			as, err := cx.args(x.Args)
			if err != nil {
				return TV{}, err
			}
			if cx.old == nil {
				return TV{}, fmt.Errorf("fresh() needs a pre-state")
			}
			ref := as[0].S
			if as[0].Sort == SSlice {
				ref = app("s_arr", ref)
			}
			return TV{app(">=", ref, cx.old.frontier), SBool, types.Typ[types.Bool]}, nil
		case "defined":
			// defined(x): the local variable x has been given a value on the path that reaches this point (for return
			// sites: lets a clause speak only about the returns behind x's declaration)
			if len(x.Args) != 1 {
				return TV{}, fmt.Errorf("defined(x) expects one local variable name")
			}
			idn, ok := x.Args[0].(*ast.Ident)
			if !ok {
				return TV{}, fmt.Errorf("defined(x) expects a local variable name")
			}
			_, has := cx.st.vars[idn.Name]
			_, hasA := cx.st.vars["&"+idn.Name]
			if has || hasA {
				return TV{"true", SBool, types.Typ[types.Bool]}, nil
			}
			return TV{"false", SBool, types.Typ[types.Bool]}, nil
		case "held":
			// held(ref(x.mu)): the mutex at that address is held (lock typestate; what `guarded ... by` checks)
			as, err := cx.args(x.Args)
			if err != nil {
				return TV{}, err
			}
			if len(as) != 1 || as[0].Sort != SInt {
				return TV{}, fmt.Errorf("held(ref(x.mutexField)) expects the address of a mutex")
			}
			hn := r.eng.regHeap("GH_held", "(Array Int Int)", types.Typ[types.Int])
			r.heapDeclare(hn)
			return TV{not(eq(app("select", r.heapGet(cx.st, hn), as[0].S), "0")), SBool, types.Typ[types.Bool]}, nil
		case "recvd":
			// recvd(ch): how many values this thread has taken from channel ch (ghost counter; a receive adds one)
			as, err := cx.args(x.Args)
			if err != nil {
				return TV{}, err
			}
			if len(as) != 1 || as[0].Sort != SInt {
				return TV{}, fmt.Errorf("recvd(ch) expects a channel")
			}
			hn := r.eng.regHeap("GH_recv", "(Array Int Int)", types.Typ[types.Int])
			r.heapDeclare(hn)
			return TV{app("select", r.heapGet(cx.st, hn), as[0].S), SInt, types.Typ[types.Int]}, nil
		case "seen":
			// seen(k): key k was already produced by the map iteration in progress (ghost visited set)
			as, err := cx.args(x.Args)
			if err != nil {
				return TV{}, err
			}
			// with several map iterations in scope: the one that starts last in the source (the innermost / latest loop)
			var it TV
			n, best := 0, -1
			for name, v := range cx.st.vars {
				if strings.HasPrefix(name, "iter#") {
					if tv, ok := v.(TV); ok {
						p, _ := strconv.Atoi(strings.TrimPrefix(name, "iter#"))
						if p > best {
							best, it = p, tv
						}
						n++
					}
				}
			}
			if n == 0 {
				return TV{}, fmt.Errorf("seen(): no map iteration in scope")
			}
			rg, ok := it.T.(*types.Map)
			_ = rg
			_ = ok
			name := ""
			for hn := range r.eng.heapSorts {
				if strings.HasPrefix(hn, "IT_") && strings.Contains(r.eng.heapSorts[hn], "(Array "+as[0].Sort+" Bool)") {
					name = hn
				}
			}
			if name == "" {
				return TV{}, fmt.Errorf("seen(): no iterator heap for key sort %s", as[0].Sort)
			}
			h := r.heapGet(cx.st, name)
			return TV{app("select", app("select", h, it.S), as[0].S), SBool, types.Typ[types.Bool]}, nil
		case "typeIs":
			// typeIs(x, T): dynamic type of interface value
			v, err := cx.goExpr(x.Args[0])
			if err != nil {
				return TV{}, err
			}
			t, err := cx.typeOfExpr(x.Args[1])
			if err != nil {
				return TV{}, err
			}
			return TV{eq(app("i_tag", v.S), num(int64(r.eng.typeID(t)))), SBool, types.Typ[types.Bool]}, nil
		case "ref":
			// ref(x.f): the address of the struct-typed field f of *x (comparable with pointers to such structs)
			if len(x.Args) != 1 {
				return TV{}, fmt.Errorf("ref() takes one argument")
			}
			n := cx.sub()
			n.wantRef = true
			return n.goExpr(x.Args[0])
		case "kcat", "kdrop", "pend", "hasSucc":
			// the key theory of the engine (bytes: key mode): concatenation, suffix, prefix successor
			as, err := cx.args(x.Args)
			if err != nil {
				return TV{}, err
			}
			var ss []string
			for _, a := range as {
				ss = append(ss, a.S)
			}
			if id.Name == "hasSucc" {
				return TV{app("hasSucc", ss...), SBool, types.Typ[types.Bool]}, nil
			}
			return TV{app(id.Name, ss...), SInt, types.NewSlice(types.Typ[types.Uint8])}, nil
		case "bytesEq":
			as, err := cx.args(x.Args)
			if err != nil {
				return TV{}, err
			}
			if as[0].Sort != SSlice {
				return TV{eq(as[0].S, as[1].S), SBool, nil}, nil
			}
			_, h := r.elemHeap(cx.st, types.Typ[types.Uint8])
			q := fmt.Sprintf("q_be_%d", r.nconst)
			r.nconst++
			a, b := as[0].S, as[1].S
			return TV{and(eq(app("s_len", a), app("s_len", b)),
				fmt.Sprintf("(forall ((%s Int)) (=> (and (<= 0 %s) (< %s (s_len %s))) (= (select (select %s (s_arr %s)) (+ (s_off %s) %s)) (select (select %s (s_arr %s)) (+ (s_off %s) %s)))))",
					q, q, q, a, h, a, a, q, h, b, b, q)), SBool, nil}, nil
		}
		if t, ok := basicTypes[id.Name]; ok && len(x.Args) == 1 {
			a, err := cx.goExpr(x.Args[0])
			if err != nil {
				return TV{}, err
			}
			if _, _, isInt := intWidth(t); isInt && a.Sort == SInt {
				// conversions in contracts follow Go: wrap when the source may not fit
				// (arithmetic in contracts is mathematical: a sum of two uint64 values may not fit, so a compound
				// arithmetic term is always wrapped by an explicit conversion)
				compound := strings.HasPrefix(a.S, "(+ ") || strings.HasPrefix(a.S, "(- ") || strings.HasPrefix(a.S, "(* ")
				if a.T != nil && !compound {
					if flo, fhi, ok := intRange(a.T); ok {
						tlo, thi, _ := intRange(t)
						if flo.Cmp(tlo) >= 0 && fhi.Cmp(thi) <= 0 {
							return TV{a.S, SInt, t}, nil
						}
					}
				}
				if n, ok := numeral(a.S); ok {
					tlo, thi, _ := intRange(t)
					if n.Cmp(tlo) >= 0 && n.Cmp(thi) <= 0 {
						return TV{a.S, SInt, t}, nil
					}
				}
				return TV{wrapTo(t, a.S), SInt, t}, nil
			}
			if a.Sort == s.sortOf(t) {
				a.T = t
				return a, nil
			}
			return TV{}, fmt.Errorf("unsupported conversion to %s", id.Name)
		}
		if id.Name == "mathint" && len(x.Args) == 1 {
			a, err := cx.goExpr(x.Args[0])
			if err != nil {
				return TV{}, err
			}
			a.T = nil
			return a, nil
		}
		sf := r.eng.specs.SpecFuncs[id.Name]
		if cx.pkg != nil {
			if own := r.eng.specs.SpecFuncs[cx.pkg.Path()+"."+id.Name]; own != nil {
				sf = own
			}
		}
		if sf != nil {
			as, err := cx.args(x.Args)
			if err != nil {
				return TV{}, err
			}
			return cx.specCall(sf, as)
		}
		// package-level function of the package under verification: pure call
		if cx.pkg != nil {
			if o, ok := cx.pkg.Scope().Lookup(id.Name).(*types.Func); ok {
				as, err := cx.args(x.Args)
				if err != nil {
					return TV{}, err
				}
				return cx.pureCall(r.eng.prog.FuncValue(o), as)
			}
			if tn, ok := cx.pkg.Scope().Lookup(id.Name).(*types.TypeName); ok && len(x.Args) == 1 {
				a, err := cx.goExpr(x.Args[0])
				if err != nil {
					return TV{}, err
				}
				if a.Sort == s.sortOf(tn.Type()) {
					a.T = tn.Type()
					return a, nil
				}
			}
		}
		return TV{}, fmt.Errorf("unknown function %s in contract", id.Name)
	}
	if sel, ok := x.Fun.(*ast.SelectorExpr); ok {
		// pkg.Func(...)
		if id, ok := sel.X.(*ast.Ident); ok {
			_, isBound := cx.bound[id.Name]
			_, isBind := cx.binds[id.Name]
			_, isVar := cx.st.vars[id.Name]
			_, isAVar := cx.st.vars["&"+id.Name]
			if !isBound && !isBind && !(cx.useVars && (isVar || isAVar)) {
				if p := cx.lookupPkg(id.Name); p != nil {
					as, err := cx.args(x.Args)
					if err != nil {
						return TV{}, err
					}
					if tv, ok, err := cx.nativePure(p.Path()+"."+sel.Sel.Name, as); ok {
						return tv, err
					}
					if sf := r.eng.specs.SpecFuncs[p.Path()+"."+sel.Sel.Name]; sf != nil {
						return cx.specCall(sf, as)
					}
					if o, ok := p.Scope().Lookup(sel.Sel.Name).(*types.Func); ok {
						return cx.pureCall(r.eng.prog.FuncValue(o), as)
					}
					if tn, ok := p.Scope().Lookup(sel.Sel.Name).(*types.TypeName); ok && len(as) == 1 {
						if as[0].Sort == s.sortOf(tn.Type()) {
							as[0].T = tn.Type()
							return as[0], nil
						}
					}
					return TV{}, fmt.Errorf("unknown function %s.%s", id.Name, sel.Sel.Name)
				}
			}
		}
		// method call on a value
		recv, err := cx.goExpr(sel.X)
		if err != nil {
			return TV{}, err
		}
		if recv.T == nil {
			return TV{}, fmt.Errorf("method call on untyped value")
		}
		as, err := cx.args(x.Args)
		if err != nil {
			return TV{}, err
		}
		obj, mpath, indirect := types.LookupFieldOrMethod(recv.T, true, cx.pkg, sel.Sel.Name)
		if obj == nil {
			if nt := namedOf(recv.T); nt != nil && nt.Obj().Pkg() != nil {
				obj, mpath, indirect = types.LookupFieldOrMethod(recv.T, true, nt.Obj().Pkg(), sel.Sel.Name)
			}
		}
		_ = indirect
		m, ok := obj.(*types.Func)
		if !ok {
			return TV{}, fmt.Errorf("no method %s on %s", sel.Sel.Name, recv.T)
		}
		// a promoted method: walk the embedded fields down to the value that declares it
		for _, fi := range mpath[:len(mpath)-1] {
			bt := recv.T
			if pt, ok := bt.Underlying().(*types.Pointer); ok {
				bt = pt.Elem()
			}
			stt, ok := bt.Underlying().(*types.Struct)
			if !ok || fi >= stt.NumFields() {
				return TV{}, fmt.Errorf("promoted method %s: bad embedding path", sel.Sel.Name)
			}
			recv, err = cx.selectField(recv, stt.Field(fi).Name())
			if err != nil {
				return TV{}, err
			}
		}
		if _, isIface := recv.T.Underlying().(*types.Interface); isIface {
			return cx.ifaceSpecCall(recv, m, as)
		}
		fn := r.eng.prog.FuncValue(m)
		if fn == nil {
			return TV{}, fmt.Errorf("no code for method %s", m.FullName())
		}
		// receiver adjustment: value receiver called on pointer
		sig := m.Type().(*types.Signature)
		rt := sig.Recv().Type()
		if _, wantPtr := rt.Underlying().(*types.Pointer); !wantPtr {
			if pt, isPtr := recv.T.Underlying().(*types.Pointer); isPtr {
				recv = r.loadAt(cx.st, recv.S, pt.Elem())
			}
		}
		return cx.pureCall(fn, append([]TV{recv}, as...))
	}
	return TV{}, fmt.Errorf("unsupported call in contract")
}

// specCall expands a spec function (macro semantics; recursive ones become define-fun-rec).
func (cx *evalCtx) specCall(sf *SpecFunc, args []TV) (TV, error) {
	if len(args) != len(sf.Params) {
		return TV{}, fmt.Errorf("spec func %s: wrong argument count", sf.Name)
	}
	if cx.depth > 40 {
		return TV{}, fmt.Errorf("spec func %s: expansion too deep (use spec rec func)", sf.Name)
	}
	r := cx.run
	pkgcx := cx.sub()
	if p := r.eng.typesPkg(sf.Pkg); p != nil {
		pkgcx.pkg = p
	}
	// a concrete value passed for an interface-typed parameter is boxed, as Go's implicit conversion does
	for i, p := range sf.Params {
		if args[i].Sort == SIface || args[i].T == nil {
			continue
		}
		if t, err := pkgcx.resolveType(p.Type); err == nil && r.eng.sorts.sortOf(t) == SIface {
			if _, isNil := args[i].T.(*types.Basic); isNil && args[i].T.(*types.Basic).Kind() == types.UntypedNil {
				continue
			}
			args[i] = r.makeIface(cx.st, args[i], args[i].T, t)
		}
	}
	if sf.Uninterpreted {
		name := "spec_" + sf.Name
		rt, err := pkgcx.resolveType(sf.Ret)
		if err != nil {
			return TV{}, err
		}
		if !r.ghostUF[name] {
			r.ghostUF[name] = true
			var ss []string
			for _, p := range sf.Params {
				t, err := pkgcx.resolveType(p.Type)
				if err != nil {
					return TV{}, err
				}
				ss = append(ss, r.eng.sorts.sortOf(t))
			}
			r.emit(fmt.Sprintf("(declare-fun %s (%s) %s)", name, strings.Join(ss, " "), r.eng.sorts.sortOf(rt)))
			// the result is a value of its declared type (abstract keys and unsigned integers are not negative, ...)
			if len(ss) > 0 {
				var decl, vars []string
				for i, so := range ss {
					decl = append(decl, fmt.Sprintf("(a%d %s)", i, so))
					vars = append(vars, fmt.Sprintf("a%d", i))
				}
				call := app(name, vars...)
				if inv := r.typeInvRefOnly(call, rt, &State{frontier: "0"}); inv != "true" && !strings.Contains(inv, " 0)") || isKeyLike(r, rt) {
					if isKeyLike(r, rt) {
						r.emit(fmt.Sprintf("(assert (forall (%s) (! (>= %s 0) :pattern (%s)))) ;bg", strings.Join(decl, " "), call, call))
					}
				}
				if lo, hi, ok := intRange(rt); ok {
					r.emit(fmt.Sprintf("(assert (forall (%s) (! (and (<= %s %s) (<= %s %s)) :pattern (%s)))) ;bg", strings.Join(decl, " "), bigNum(lo), call, call, bigNum(hi), call))
				}
			}
		}
		var as []string
		for _, a := range args {
			as = append(as, a.S)
		}
		return TV{app(name, as...), r.eng.sorts.sortOf(rt), rt}, nil
	}
	if sf.Rec {
		name := "spec_" + sf.Name
		if !r.ghostUF[name] {
			r.ghostUF[name] = true
			var decl []string
			n := pkgcx.sub()
			n.binds = map[string]Val{}
			n.bound = map[string]TV{}
			n.useVars = false
			for _, p := range sf.Params {
				t, err := pkgcx.resolveType(p.Type)
				if err != nil {
					return TV{}, err
				}
				sort := r.eng.sorts.sortOf(t)
				decl = append(decl, fmt.Sprintf("(%s %s)", "p_"+p.Name, sort))
				n.bound[p.Name] = TV{"p_" + p.Name, sort, t}
			}
			rt, err := pkgcx.resolveType(sf.Ret)
			if err != nil {
				return TV{}, err
			}
			n.depth = cx.depth + 1
			body, err := n.expr(sf.Body)
			if err != nil {
				return TV{}, err
			}
			r.emit(fmt.Sprintf("(define-fun-rec %s (%s) %s %s)", name, strings.Join(decl, " "), r.eng.sorts.sortOf(rt), body.S))
		}
		rt, _ := pkgcx.resolveType(sf.Ret)
		var as []string
		for _, a := range args {
			as = append(as, a.S)
		}
		return TV{app(name, as...), r.eng.sorts.sortOf(rt), rt}, nil
	}
	n := pkgcx.sub()
	n.binds = map[string]Val{}
	n.btypes = map[string]types.Type{}
	n.useVars = false
	n.depth = cx.depth + 1
	for i, p := range sf.Params {
		a := args[i]
		if t, err := pkgcx.resolveType(p.Type); err == nil {
			if a.Sort == "nil" {
				a = TV{r.zero(t).S, r.eng.sorts.sortOf(t), t}
			}
			if a.T == nil || a.Sort == r.eng.sorts.sortOf(t) {
				a.T = t
			}
		}
		if strings.HasPrefix(a.S, "(") && len(a.S) > 40 && !strings.Contains(a.S, "q_") {
			a.S = r.define("sa", a.Sort, a.S)
		}
		n.binds[p.Name] = a
	}
	// a parameter of the spec function hides a quantified variable of the same name at the call site
	if len(n.bound) > 0 {
		nb := map[string]TV{}
		for k, v := range n.bound {
			nb[k] = v
		}
		for _, p := range sf.Params {
			delete(nb, p.Name)
		}
		n.bound = nb
	}
	if os.Getenv("GOCV_DEBUG_SPEC") != "" {
		for i, p := range sf.Params {
			fmt.Fprintf(os.Stderr, "[speccall] %s param %s = %s\n", sf.Name, p.Name, args[i].S)
		}
	}
	res, err := n.expr(sf.Body)
	if err != nil {
		return TV{}, fmt.Errorf("in spec func %s: %v", sf.Name, err)
	}
	if sf.Ret != "" {
		if t, err := pkgcx.resolveType(sf.Ret); err == nil {
			res.T = t
		}
	}
	return res, nil
}

// pureCall evaluates a side-effect free Go function on a copy of the state (used for getters in contracts).
func (cx *evalCtx) pureCall(fn *ssa.Function, args []TV) (TV, error) {
	r := cx.run
	if fn == nil {
		return TV{}, fmt.Errorf("function has no body")
	}
	if sp := r.eng.specs.Funcs[fn.String()]; sp != nil && (sp.Pure || sp.Trusted) && len(fn.Blocks) == 0 || (sp != nil && sp.Pure && !sp.Inline) {
		return cx.pureByContract(fn, sp, args)
	}
	// library functions with a built-in model (bytes.Compare, bytes.HasPrefix, ... in key mode)
	if cx.fr != nil && fn.Signature.Results().Len() == 1 {
		vals := make([]Val, len(args))
		for i, a := range args {
			vals[i] = a
		}
		switch fn.String() {
		case "bytes.HasPrefix", "bytes.Equal", "bytes.Compare", "github.com/tikv/client-go/v2/kv.CmpKey", "github.com/tikv/client-go/v2/kv.NextKey",
			"errors.Is", "github.com/pkg/errors.Is", "github.com/pingcap/errors.Is":
			if res, ok := cx.fr.nativeCallVals(cx.st, fn, vals, fn.Signature); ok {
				return r.toTV(cx.st, res, fn.Signature.Results().At(0).Type()), nil
			}
		}
	}
	if len(fn.Blocks) == 0 {
		return TV{}, fmt.Errorf("function %s has no body and no pure contract", fn.String())
	}
	if cx.depth > 6 {
		return TV{}, fmt.Errorf("pure call nesting too deep at %s", fn.Name())
	}
	st := cx.st.clone()
	sub := &Frame{run: r, fn: fn, top: false, depth: 1}
	if cx.fr != nil {
		sub.depth = cx.fr.depth + 1
		sub.stack = append(append([]*ssa.Function(nil), cx.fr.stack...), cx.fr.fn)
	}
	if len(args) != len(fn.Params) {
		return TV{}, fmt.Errorf("wrong argument count for %s", fn.Name())
	}
	st.env = map[ssa.Value]Val{}
	st.vars = map[string]Val{}
	st.defers = nil
	for i, p := range fn.Params {
		a := args[i]
		if a.Sort == "nil" {
			a = r.zero(p.Type())
		}
		st.env[p] = a
	}
	bound := false
	for _, a := range args {
		if strings.Contains(a.S, "q_") {
			bound = true
		}
	}
	if bound {
		r.inlineMode++
	}
	exit, res := sub.execFunction(st)
	if bound {
		r.inlineMode--
	}
	if len(res) < 1 {
		return TV{}, fmt.Errorf("pure call %s returns nothing", fn.Name())
	}
	_ = exit
	tv := r.toTV(exit, res[0], fn.Signature.Results().At(0).Type())
	tv.T = fn.Signature.Results().At(0).Type()
	return tv, nil
}

// pureByContract: result of a pure function given only by its contract: an uninterpreted function of the
// arguments (and of nothing else), constrained by the ensures clauses at this application.
func (cx *evalCtx) pureByContract(fn *ssa.Function, sp *FuncSpec, args []TV) (TV, error) {
	r := cx.run
	name := "pure_" + sanitize(fn.String())
	rt := fn.Signature.Results().At(0).Type()
	rsort := r.eng.sorts.sortOf(rt)
	if !r.ghostUF[name] {
		r.ghostUF[name] = true
		var ss []string
		for _, a := range args {
			ss = append(ss, a.Sort)
		}
		r.emit(fmt.Sprintf("(declare-fun %s (%s) %s)", name, strings.Join(ss, " "), rsort))
	}
	var as []string
	for _, a := range args {
		as = append(as, a.S)
	}
	return TV{app(name, as...), rsort, rt}, nil
}

func (cx *evalCtx) ifaceSpecCall(recv TV, m *types.Func, args []TV) (TV, error) {
	r := cx.run
	// interface method in a contract: uninterpreted function of receiver, args and the ghost heap version
	sig := m.Type().(*types.Signature)
	if sig.Results().Len() < 1 {
		return TV{}, fmt.Errorf("interface method %s has no result", m.Name())
	}
	rt := sig.Results().At(0).Type()
	rsort := r.eng.sorts.sortOf(rt)
	name := "imeth_" + sanitize(m.FullName())
	if !r.ghostUF[name] {
		r.ghostUF[name] = true
		ss := []string{SIface}
		for _, a := range args {
			ss = append(ss, a.Sort)
		}
		r.emit(fmt.Sprintf("(declare-fun %s (%s) %s)", name, strings.Join(ss, " "), rsort))
	}
	as := []string{recv.S}
	for _, a := range args {
		as = append(as, a.S)
	}
	return TV{app(name, as...), rsort, rt}, nil
}

// nativePure: library functions with built-in meaning inside contracts.
func (cx *evalCtx) nativePure(name string, as []TV) (TV, bool, error) {
	r := cx.run
	key := r.eng.sorts.keyMode
	switch name {
	case "bytes.Compare":
		if key && len(as) == 2 {
			return TV{ite(app("<", as[0].S, as[1].S), "(- 1)", ite(eq(as[0].S, as[1].S), "0", "1")), SInt, types.Typ[types.Int]}, true, nil
		}
	case "bytes.Equal":
		if key && len(as) == 2 {
			return TV{eq(as[0].S, as[1].S), SBool, types.Typ[types.Bool]}, true, nil
		}
	case "github.com/tikv/client-go/v2/kv.NextKey":
		if key && len(as) == 1 {
			return TV{app("+", as[0].S, "1"), SInt, as[0].T}, true, nil
		}
	}
	return TV{}, false, nil
}

// ---------------------------------------------------------------------------------------------

func (fr *Frame) newCtx(st *State, rec *loopRec, useVars bool) *evalCtx {
	cx := &evalCtx{fr: fr, run: fr.run, st: st, old: fr.entry, binds: fr.params, useVars: useVars, rec: rec}
	if fr.fn.Pkg != nil {
		cx.pkg = fr.fn.Pkg.Pkg
	} else if fr.fn.Parent() != nil && fr.fn.Parent().Pkg != nil {
		cx.pkg = fr.fn.Parent().Pkg.Pkg
	}
	return cx
}

func (fr *Frame) evalClause(st *State, c *Clause, rec *loopRec) (string, error) {
	cx := fr.newCtx(st, rec, true)
	// step clauses are checked on every back edge; a local that is not yet defined on one of them is arbitrary there
	cx.undefLocals = c.Kind == "step"
	return cx.boolExpr(c.Expr)
}

func (fr *Frame) evalTerm(st *State, c *Clause, rec *loopRec) (TV, error) {
	cx := fr.newCtx(st, rec, true)
	return cx.expr(c.Expr)
}

// isKeyLike: a byte string represented as an abstract key (non-negative Int) in the current mode.
func isKeyLike(r *Run, t types.Type) bool {
	if r.eng.sorts.keyMode && isByteSlice(t) {
		return true
	}
	if b, ok := t.Underlying().(*types.Basic); ok && b.Info()&types.IsString != 0 {
		return true
	}
	return false
}

var qvarRe = regexp.MustCompile(`q_[A-Za-z0-9_]+`)

// findUFPattern: the smallest term f(... v ...) in body with f uninterpreted (spec_*, kcat, kdrop, pend) that mentions the
// bound variable v, contains no arithmetic and no variable bound further inside.
func findUFPattern(body, v string, outer map[string]bool) string {
	best := ""
	for _, head := range []string{"(spec_", "(kcat ", "(kdrop ", "(pend "} {
		for from := 0; ; {
			i := strings.Index(body[from:], head)
			if i < 0 {
				break
			}
			i += from
			from = i + 1
			depth, j := 0, i
			for ; j < len(body); j++ {
				if body[j] == '(' {
					depth++
				} else if body[j] == ')' {
					depth--
					if depth == 0 {
						break
					}
				}
			}
			if j >= len(body) {
				continue
			}
			term := body[i : j+1]
			ok := false
			for _, m := range qvarRe.FindAllString(term, -1) {
				if m == v {
					ok = true
				} else if !outer[m] {
					ok = false
					break
				}
			}
			if !ok || strings.Contains(term, "(+ ") || strings.Contains(term, "(- ") || strings.Contains(term, "(* ") || strings.Contains(term, "(ite ") || strings.Contains(term, "(forall ") || strings.Contains(term, "(exists ") {
				continue
			}
			if best == "" || len(term) < len(best) {
				best = term
			}
		}
	}
	return best
}
