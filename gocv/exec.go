package main

import (
	"fmt"
	"go/ast"
	"go/constant"
	"go/token"
	"go/types"
	"math/big"
	"os"
	"strings"

	"golang.org/x/tools/go/ssa"
)

type retInfo struct {
	st      *State
	results []Val
}

type loopRec struct {
	head     *State // state right after havoc + invariant assumption (phis bound)
	measure  string
	l        *loop
	phiVals  map[*ssa.Phi]Val
	havocked []string
}

type Frame struct {
	run       *Run
	fn        *ssa.Function
	top       bool
	depth     int
	spec      *FuncSpec
	overrideRes Val // result of the contract call being applied, when it is a known function of the arguments (trusted pure)
	retBlock  int // SSA block of the return instruction being checked (names return-site obligations)
	li        *loopInfo
	returns   []retInfo
	callCount map[string]int
	loopRecs  map[string]*loopRec
	entry     *State
	params    map[string]Val
	panics    int
	stack     []*ssa.Function
	deferOrd  map[*ssa.Defer]int
	curRec    *loopRec // innermost invariant-cut loop around the block being executed
	rhsToLhs  map[ast.Expr]string
	doneChans map[string]string // channel term returned by ctx.Done() -> ctx term
	namedRes  map[string]*Addr  // memory cells of named results (a contract's bare name means the result, not a shadowing local)
}

func (e *Eng) typeID(t types.Type) int {
	k := types.TypeString(t, nil)
	if id, ok := e.typeIDs[k]; ok {
		return id
	}
	id := len(e.typeIDs) + 1
	e.typeIDs[k] = id
	e.typeByID[id] = t
	return id
}

func (e *Eng) pseudoTypeID(name string) int {
	k := "pseudo:" + name
	if id, ok := e.typeIDs[k]; ok {
		return id
	}
	id := len(e.typeIDs) + 1
	e.typeIDs[k] = id
	return id
}

func (e *Eng) strID(s string) int {
	if s == "" {
		return 0
	}
	if id, ok := e.strIDs[s]; ok {
		return id
	}
	id := len(e.strIDs) + 1
	e.strIDs[s] = id
	return id
}

func (r *Run) constVal(c *ssa.Const) TV {
	t := c.Type()
	sort := r.eng.sorts.sortOf(t)
	if c.Value == nil {
		z := r.zero(t)
		return z
	}
	switch c.Value.Kind() {
	case constant.Bool:
		if constant.BoolVal(c.Value) {
			return TV{"true", SBool, t}
		}
		return TV{"false", SBool, t}
	case constant.Int:
		if sort == SReal {
			return TV{bigNum(mustBig(c.Value)) + ".0", SReal, t}
		}
		return TV{bigNum(mustBig(c.Value)), SInt, t}
	case constant.String:
		s := constant.StringVal(c.Value)
		id := r.eng.strID(s)
		if id != 0 && !r.ghostUF["strlen:"+s] {
			r.ghostUF["strlen:"+s] = true
			r.assumeGlobal(eq(app("strlen", num(int64(id))), num(int64(len(s)))))
		}
		return TV{num(int64(id)), SInt, t}
	case constant.Float:
		if sort == SReal {
			f, _ := constant.Float64Val(c.Value)
			s := fmt.Sprintf("%f", f)
			if f < 0 {
				s = fmt.Sprintf("(- %f)", -f)
			}
			return TV{s, SReal, t}
		}
		if i := constant.ToInt(c.Value); i.Kind() == constant.Int {
			return TV{bigNum(mustBig(i)), SInt, t}
		}
	}
	return r.zero(t)
}

func mustBig(v constant.Value) *big.Int {
	if v.Kind() != constant.Int {
		v = constant.ToInt(v)
	}
	if i, ok := constant.Int64Val(v); ok {
		return big.NewInt(i)
	}
	b, _ := new(big.Int).SetString(v.ExactString(), 10)
	if b == nil {
		return big.NewInt(0)
	}
	return b
}

func (fr *Frame) val(st *State, v ssa.Value) Val {
	r := fr.run
	switch x := v.(type) {
	case *ssa.Const:
		return r.constVal(x)
	case *ssa.Function:
		return &Closure{fn: x}
	case *ssa.Global:
		t := x.Type().(*types.Pointer).Elem()
		name := "G_" + sanitize(x.Pkg.Pkg.Name()+"_"+x.Name())
		if isAggregate(t) {
			ref := "gref_" + sanitize(x.Pkg.Pkg.Name()+"_"+x.Name())
			if !r.ghostUF[ref] {
				r.ghostUF[ref] = true
				r.emit(fmt.Sprintf("(declare-const %s Int)", ref))
				r.assumeGlobal(and(app("<", ref, "0"), eq(app("refkind", ref), num(int64(1000+len(r.ghostUF))))))
			}
			return TV{ref, SInt, x.Type()}
		}
		return &Addr{kind: aGlobal, name: name, typ: t, glob: x}
	case *ssa.Builtin:
		return x
	}
	if val, ok := st.env[v]; ok {
		return val
	}
	// unknown (dropped at a merge or never defined on this path): havoc
	if _, isTuple := v.Type().(*types.Tuple); isTuple {
		tup := v.Type().(*types.Tuple)
		out := make(Tuple, tup.Len())
		for i := range out {
			out[i] = r.freshOf(st, "u", tup.At(i).Type())
		}
		st.env[v] = out
		return out
	}
	r.warn("%s: value %s unavailable, havocked", fr.fn.Name(), v.Name())
	nv := r.freshOf(st, "u_"+v.Name(), v.Type())
	st.env[v] = nv
	return nv
}

// tv forces a Val to an SMT term.
func (fr *Frame) tv(st *State, v ssa.Value) TV {
	return fr.run.toTV(st, fr.val(st, v), v.Type())
}

func (r *Run) toTV(st *State, val Val, t types.Type) TV {
	switch x := val.(type) {
	case TV:
		return x
	case *Addr:
		return r.addrToTV(x, t)
	case *Closure:
		if x.ref == "" {
			// one identity per function value
			name := "fn_" + sanitize(x.fn.String())
			if len(x.binds) > 0 {
				x.ref = r.alloc(st, "clo")
				return TV{x.ref, SInt, t}
			}
			if !r.ghostUF[name] {
				r.ghostUF[name] = true
				r.emit(fmt.Sprintf("(declare-const %s Int)", name))
				r.assumeGlobal(app(">", name, "0"))
			}
			x.ref = name
		}
		return TV{x.ref, SInt, t}
	case Tuple:
		return TV{"0", SInt, t}
	case *ssa.Builtin:
		return TV{"0", SInt, t}
	}
	return r.freshOf(st, "x", t)
}

// deref gives the Addr (for scalar pointees) or reference term (for aggregates) behind a pointer value.
func (r *Run) derefAddr(st *State, pv Val, ptrT types.Type) *Addr {
	if a, ok := pv.(*Addr); ok {
		return a
	}
	tv := r.toTV(st, pv, ptrT)
	pt, _ := ptrT.Underlying().(*types.Pointer)
	var et types.Type
	if pt != nil {
		et = pt.Elem()
	}
	return &Addr{kind: aCell, base: tv.S, typ: et}
}

func (fr *Frame) setVar(st *State, name string, v Val) {
	if name == "" || name == "_" {
		return
	}
	st.vars[name] = v
}

// ---------------------------------------------------------------------------------------------
// function execution

// execFunction symbolically executes fn from st0 (whose env already binds parameters and free variables).
// It returns the merged state at function exit and the merged results.
func (fr *Frame) execFunction(st0 *State) (*State, []Val) {
	r := fr.run
	fn := fr.fn
	if len(fn.Blocks) == 0 {
		return st0, nil
	}
	fr.li = findLoops(fn)
	for _, l := range fr.li.loops {
		if fr.spec != nil && fr.top {
			l.spec = fr.spec.Loops[l.ordinal]
		}
	}
	fr.loopRecs = map[string]*loopRec{}
	fr.callCount = map[string]int{}
	// go/ssa reports `x := T{...}` as "x is nil" followed by an anonymous literal value: recover the binding from the syntax
	fr.rhsToLhs = map[ast.Expr]string{}
	if syn := fn.Syntax(); syn != nil {
		ast.Inspect(syn, func(n ast.Node) bool {
			switch a := n.(type) {
			case *ast.AssignStmt:
				if len(a.Lhs) == len(a.Rhs) {
					for i, l := range a.Lhs {
						if id, ok := l.(*ast.Ident); ok && id.Name != "_" {
							fr.rhsToLhs[ast.Unparen(a.Rhs[i])] = id.Name
						}
					}
				}
			case *ast.ValueSpec:
				if len(a.Names) == len(a.Values) {
					for i, id := range a.Names {
						if id.Name != "_" {
							fr.rhsToLhs[ast.Unparen(a.Values[i])] = id.Name
						}
					}
				}
			case *ast.FuncLit:
				return n == syn // nested closures have their own frames
			}
			return true
		})
	}
	fr.deferOrd = map[*ssa.Defer]int{}
	ord := 0
	for _, b := range fn.Blocks {
		for _, in := range b.Instrs {
			if d, ok := in.(*ssa.Defer); ok {
				fr.deferOrd[d] = ord
				ord++
			}
		}
	}
	// expand the DAG (DFS, postorder)
	entry := node{fn.Blocks[0], nil}
	nodes := map[string]node{}
	inEdges := map[string][]edge{}
	var post []string
	visited := map[string]int{}
	var dfs func(n node)
	dfs = func(n node) {
		k := n.key()
		visited[k] = 1
		nodes[k] = n
		occ := map[*ssa.BasicBlock]int{}
		for i := range n.b.Succs {
			s, kind := fr.li.succNode(n, i)
			if kind != edgeForward {
				continue
			}
			sk := s.key()
			pi := predIndex(n.b, s.b, occ[s.b])
			occ[s.b]++
			inEdges[sk] = append(inEdges[sk], edge{from: k, predIdx: pi, succIdx: i})
			if visited[sk] == 0 {
				dfs(s)
			} else if visited[sk] == 1 {
				r.warn("%s: irreducible control flow at block %d", fn.Name(), s.b.Index)
			}
		}
		visited[k] = 2
		post = append(post, k)
	}
	dfs(entry)
	out := map[string][]*State{} // per node: state on each successor edge
	for i := len(post) - 1; i >= 0; i-- {
		k := post[i]
		n := nodes[k]
		var st *State
		var phiFrom []struct {
			st  *State
			idx int
		}
		if k == entry.key() {
			st = st0
		} else {
			var ins []*State
			for _, e := range inEdges[k] {
				ps := out[e.from]
				if ps == nil || ps[e.succIdx] == nil {
					continue
				}
				es := ps[e.succIdx].clone()
				fr.bindPhis(es, n.b, e.predIdx)
				ins = append(ins, es)
			}
			_ = phiFrom
			st = r.mergeStates(ins)
		}
		if fr.li.isCutNode(n) {
			st = fr.cutLoop(st, n, fr.li.byHeader[n.b])
		}
		out[k] = fr.execBlock(st, n)
	}
	// merge returns
	if len(fr.returns) == 0 {
		dead := &State{reach: "false", dead: true, env: map[ssa.Value]Val{}, heaps: map[string]string{}, vars: map[string]Val{}, frontier: st0.frontier}
		return dead, nil
	}
	var sts []*State
	for _, ri := range fr.returns {
		sts = append(sts, ri.st)
	}
	nres := len(fr.returns[0].results)
	// merge results by hand (they are not in env)
	exit := fr.returns[0].st.clone()
	results := append([]Val(nil), fr.returns[0].results...)
	for _, ri := range fr.returns[1:] {
		if ri.st.dead || ri.st.reach == "false" {
			continue
		}
		if exit.dead || exit.reach == "false" {
			exit = ri.st.clone()
			results = append([]Val(nil), ri.results...)
			continue
		}
		c := exit.reach
		for j := 0; j < nres; j++ {
			m, ok := r.mergeVal(c, results[j], ri.results[j])
			if !ok {
				m = r.freshOf(exit, "res", fn.Signature.Results().At(j).Type())
				r.warn("%s: result %d not mergeable, havocked", fn.Name(), j)
			}
			results[j] = m
		}
		exit = r.merge2(exit, ri.st)
	}
	return exit, results
}

func (fr *Frame) bindPhis(st *State, b *ssa.BasicBlock, predIdx int) {
	if predIdx < 0 {
		return
	}
	// phis read their operands simultaneously
	type pv struct {
		p *ssa.Phi
		v Val
	}
	var pvs []pv
	for _, in := range b.Instrs {
		p, ok := in.(*ssa.Phi)
		if !ok {
			break
		}
		pvs = append(pvs, pv{p, fr.val(st, p.Edges[predIdx])})
	}
	for _, x := range pvs {
		st.env[x.p] = x.v
		fr.setVar(st, x.p.Comment, x.v)
	}
}

// cutLoop: check the invariant on entry, havoc what the loop modifies, assume the invariant.
func (fr *Frame) cutLoop(st *State, n node, l *loop) *State {
	r := fr.run
	var invs []*Clause
	var dec *Clause
	if l.spec != nil {
		invs = l.spec.Invariants
		dec = l.spec.Decreases
	}
	if fr.top && !st.dead {
		for i, c := range invs {
			f, err := fr.evalClause(st, c, nil)
			if err != nil {
				r.eng.bindError(fr.spec, c, err)
				continue
			}
			r.oblige(st, "invariant-init", fmt.Sprintf("loop%d.%s", l.ordinal, labelOr(c, i)), c.Text, f)
		}
	}
	hs := st.clone()
	// havoc phis
	rec := &loopRec{l: l, phiVals: map[*ssa.Phi]Val{}}
	for _, in := range n.b.Instrs {
		p, ok := in.(*ssa.Phi)
		if !ok {
			break
		}
		var nv Val
		switch old := hs.env[p].(type) {
		case *Addr:
			a := *old
			a.base = r.declare("lp_"+p.Comment, SInt)
			if a.idx != "" {
				a.idx = r.declare("lpi_"+p.Comment, SInt)
			}
			nv = &a
		default:
			nv = r.freshOf(hs, "lp_"+p.Comment, p.Type())
			if tv, ok := nv.(TV); ok && tv.Sort == SSlice && zeroOffsetSlice(p, map[ssa.Value]bool{}) {
				// every definition that reaches this variable is make/append/nil: the slice starts at its array's beginning
				r.assume(hs, eq(app("s_off", tv.S), "0"))
			}
		}
		hs.env[p] = nv
		fr.setVar(hs, p.Comment, nv)
		rec.phiVals[p] = nv
	}
	// havoc heaps written in the loop
	mods := r.eng.modsetBlocks(l.body, fr.spec)
	if os.Getenv("GOCV_DEBUG") != "" {
		fmt.Fprintf(os.Stderr, "[loop-havoc] %s loop %d: %v\n", fr.fn.Name(), l.ordinal, sortedKeys(mods))
	}
	nf := r.declare("frontier", SInt)
	r.assumeGlobal(app(">=", nf, hs.frontier))
	hs.frontier = nf
	points := r.eng.mapPointTargets(l.body, fr.spec)
	for _, h := range sortedKeys(mods) {
		if vs, ok := points[h]; ok {
			// only the rows of the named (loop-invariant) maps change
			r.heapDeclare(h)
			cur := r.heapGet(hs, h)
			sort := r.heapSort[h]
			nh := r.declare("lp_"+h, sort)
			r.heapWF(nh, sort, r.eng.heapElemType[h], hs.frontier)
			for _, v := range vs {
				ref := fr.tv(hs, v).S
				cur = app("store", cur, ref, app("select", nh, ref))
			}
			r.heapSet(hs, h, cur)
			rec.havocked = append(rec.havocked, h)
			continue
		}
		r.heapHavoc(hs, h)
		rec.havocked = append(rec.havocked, h)
	}
	// heap closure at the loop head: every reference stored in an existing object refers to an existing object
	// (true of real heaps at every point; restated here for the heap versions that were not havocked)
	for _, h := range sortedKeys(r.heapInit) {
		skip := false
		for _, hv := range rec.havocked {
			if hv == h {
				skip = true
			}
		}
		if skip {
			continue
		}
		r.heapWF(r.heapGet(hs, h), r.heapSort[h], r.eng.heapElemType[h], hs.frontier)
	}
	for i, c := range invs {
		f, err := fr.evalClause(hs, c, nil)
		if err != nil {
			if fr.top {
				r.eng.bindError(fr.spec, c, err)
			}
			continue
		}
		_ = i
		r.assume(hs, f)
	}
	if dec != nil && fr.top {
		m, err := fr.evalTerm(hs, dec, nil)
		if err == nil {
			rec.measure = r.define("measure", SInt, m.S)
		}
	}
	rec.head = hs.clone()
	fr.loopRecs[n.key()] = rec
	return hs
}

func labelOr(c *Clause, i int) string {
	if c.Label != "" {
		return c.Label
	}
	return fmt.Sprintf("%d", i+1)
}

// backEdge: the invariant must be re-established.
func (fr *Frame) backEdge(st *State, from node, succIdx int, hdr node) {
	r := fr.run
	l := fr.li.byHeader[hdr.b]
	if !fr.top || l == nil || st.dead {
		return
	}
	es := st.clone()
	fr.bindPhis(es, hdr.b, predIndex(from.b, hdr.b, 0))
	var invs []*Clause
	if l.spec != nil {
		invs = l.spec.Invariants
	}
	rec := fr.loopRecs[hdr.key()]
	for i, c := range invs {
		f, err := fr.evalClause(es, c, rec)
		if err != nil {
			r.eng.bindError(fr.spec, c, err)
			continue
		}
		r.oblige(es, "invariant-pres", fmt.Sprintf("loop%d.%s", l.ordinal, labelOr(c, i)), c.Text, f)
	}
	if l.spec != nil && rec != nil {
		for i, c := range l.spec.Steps {
			f, err := fr.evalClause(es, c, rec)
			if err != nil {
				r.eng.bindError(fr.spec, c, err)
				continue
			}
			r.oblige(es, "step", fmt.Sprintf("loop%d.%s", l.ordinal, labelOr(c, i)), c.Text, f)
		}
	}
	if l.spec != nil && l.spec.Decreases != nil && rec != nil && rec.measure != "" {
		m, err := fr.evalTerm(es, l.spec.Decreases, rec)
		if err == nil {
			r.oblige(es, "decreases", fmt.Sprintf("loop%d", l.ordinal), l.spec.Decreases.Text,
				and(app("<=", "0", rec.measure), app("<", m.S, rec.measure)))
		}
	}
}

func (fr *Frame) execBlock(st *State, n node) []*State {
	r := fr.run
	b := n.b
	outs := make([]*State, len(b.Succs))
	if st.dead || st.reach == "false" {
		return outs
	}
	fr.curRec = nil
	best := -1
	for _, l := range fr.li.loops {
		if l.body[b] && (l.spec == nil || l.spec.Unroll == 0) {
			hc := fr.li.restrict(n.ctx, l.header)
			if rec := fr.loopRecs[node{l.header, hc}.key()]; rec != nil && (best < 0 || len(l.body) < best) {
				fr.curRec = rec
				best = len(l.body)
			}
		}
	}
	for _, in := range b.Instrs {
		if st.dead {
			return outs
		}
		switch x := in.(type) {
		case *ssa.Phi:
			// bound on the edges
		case *ssa.If:
			c := fr.tv(st, x.Cond).S
			t := st
			f := st.clone()
			t.reach = r.define("reach", SBool, and(st.reach, c))
			f.reach = r.define("reach", SBool, and(f.reach, not(c)))
			if bo, ok := x.Cond.(*ssa.BinOp); ok && bo.Op == token.EQL {
				for _, pr := range [][2]ssa.Value{{bo.X, bo.Y}, {bo.Y, bo.X}} {
					if cst, ok := pr[1].(*ssa.Const); ok && cst.Value != nil && cst.Value.Kind() == constant.Int {
						if tv, ok := fr.val(t, pr[0]).(TV); ok && tv.Sort == SInt {
							term := tv.S
							if d, ok := r.defs[term]; ok {
								term = d
							}
							if t.eqFacts == nil {
								t.eqFacts = map[string]string{}
							}
							t.eqFacts[term] = cst.Value.ExactString()
						}
					}
				}
			}
			fr.flow(t, n, 0, outs)
			fr.flow(f, n, 1, outs)
			return outs
		case *ssa.Jump:
			fr.flow(st, n, 0, outs)
			return outs
		case *ssa.Return:
			var res []Val
			for _, rv := range x.Results {
				res = append(res, fr.val(st, rv))
			}
			if fr.top && fr.spec != nil && len(fr.spec.Sites) > 0 && x.Block() != fr.fn.Recover {
				// (the synthetic return of the recover block - reached only after a recovered panic, with no state the
				// contract could speak about - is not a return site)
				// at return assert ...: a postcondition that may mention the function's local variables (checked at every
				// return instruction, after the deferred calls)
				extra := map[string]Val{}
				if len(res) == 1 {
					bindResults(extra, fr.fn.Signature, res[0])
				} else if len(res) > 1 {
					bindResults(extra, fr.fn.Signature, Tuple(res))
				}
				fr.retBlock = x.Block().Index
				fr.siteGeneric(st, "return", "", extra)
			}
			fr.returns = append(fr.returns, retInfo{st, res})
			return outs
		case *ssa.Panic:
			if fr.top && !fr.spec.MayPanic {
				fr.panics++
				r.oblige(st, "unreachable-panic", fmt.Sprintf("%d", fr.panics), "explicit panic is unreachable", "false")
			}
			st.dead = true
			return outs
		default:
			fr.execInstr(st, in)
		}
	}
	return outs
}

func (fr *Frame) flow(st *State, n node, k int, outs []*State) {
	s, kind := fr.li.succNode(n, k)
	switch kind {
	case edgeForward:
		outs[k] = st
	case edgeBackInv:
		fr.backEdge(st, n, k, s)
	case edgeUnwindFail:
		if fr.top {
			l := fr.li.byHeader[n.b.Succs[k]]
			fr.run.oblige(st, "unwind", fmt.Sprintf("loop%d", l.ordinal), fmt.Sprintf("loop %d runs at most %d iterations", l.ordinal, l.spec.Unroll), "false")
		}
	}
}

// ---------------------------------------------------------------------------------------------
// instructions

func (fr *Frame) bind(st *State, v ssa.Value, val Val) {
	if tv, ok := val.(TV); ok {
		if strings.HasPrefix(tv.S, "(") {
			tv.S = fr.run.define(v.Name(), tv.Sort, tv.S)
		}
		tv.T = v.Type()
		val = tv
	}
	st.env[v] = val
}

func (fr *Frame) execInstr(st *State, in ssa.Instruction) {
	r := fr.run
	s := r.eng.sorts
	switch x := in.(type) {
	case *ssa.DebugRef:
		obj := x.Object()
		if obj == nil {
			if name, ok := fr.rhsToLhs[x.Expr]; ok && !x.IsAddr {
				if _, isLit := x.Expr.(*ast.CompositeLit); isLit {
					if _, held := st.vars["&"+name]; !held {
						fr.setVar(st, name, fr.val(st, x.X))
					}
				} else if u, isU := x.Expr.(*ast.UnaryExpr); isU {
					if _, isLit := u.X.(*ast.CompositeLit); isLit {
						if _, held := st.vars["&"+name]; !held {
							fr.setVar(st, name, fr.val(st, x.X))
						}
					}
				}
			}
			return
		}
		if vobj, isVar := obj.(*types.Var); !isVar || vobj.IsField() {
			return
		}
		if _, isIdent := x.Expr.(*ast.Ident); !isIdent {
			return
		}
		v := fr.val(st, x.X)
		if x.IsAddr {
			if a, ok := v.(*Addr); ok {
				fr.setVar(st, "&"+obj.Name(), a)
				delete(st.vars, obj.Name())
			} else if tv, ok := v.(TV); ok {
				// aggregate variable held in memory: its reference
				fr.setVar(st, "&"+obj.Name(), tv)
				delete(st.vars, obj.Name())
			}
		} else {
			if _, inMemory := st.vars["&"+obj.Name()]; inMemory {
				// the variable lives in a memory cell (captured or address-taken): the value reported here is only the
				// one being assigned; reads go through the cell
			} else {
				fr.setVar(st, obj.Name(), v)
			}
		}
		if id, ok := x.Expr.(*ast.Ident); ok && id.Pos() == obj.Pos() {
			fr.siteGeneric(st, "def", obj.Name(), nil)
		}
	case *ssa.Alloc:
		t := x.Type().(*types.Pointer).Elem()
		ref := r.alloc(st, "new_"+x.Comment)
		if isAggregate(t) {
			r.storeAt(st, ref, t, r.zero(t))
			// ghost fields of a new object start at their zero value as well
			if nt := namedOf(t); nt != nil {
				for _, gf := range r.eng.specs.Ghosts {
					if gf.Type == nt.Obj().Name() {
						if g := r.eng.ghostField(t, gf.Name); g != nil {
							h := r.heapGet(st, g.heap)
							r.heapSet(st, g.heap, app("store", h, ref, r.zero(g.typ).S))
						}
					}
				}
			}
			fr.bind(st, x, TV{ref, SInt, x.Type()})
		} else {
			a := &Addr{kind: aCell, base: ref, typ: t}
			r.store(st, a, r.zero(t))
			st.env[x] = a
			// named results and other address-taken locals are known by name from their allocation on
			if identRe.MatchString(x.Comment) && x.Comment != "complit" && x.Comment != "varargs" {
				if _, have := st.vars[x.Comment]; !have {
					fr.setVar(st, "&"+x.Comment, a)
				}
				if res := fr.fn.Signature.Results(); res != nil {
					for i := 0; i < res.Len(); i++ {
						if res.At(i).Name() == x.Comment && res.At(i).Pos() == x.Pos() {
							if fr.namedRes == nil {
								fr.namedRes = map[string]*Addr{}
							}
							fr.namedRes[x.Comment] = a
						}
					}
				}
			}
		}
	case *ssa.FieldAddr:
		pt := x.X.Type().Underlying().(*types.Pointer).Elem()
		si := s.structOf(pt)
		base := fr.tv(st, x.X).S
		ft := si.st.Field(x.Field).Type()
		if fr.top && fr.spec.Safety {
			r.oblige(st, "nil-deref", fr.siteLabel(in), "pointer is not nil", not(eq(base, "0")))
		}
		// taking a field's address through a nil pointer panics here: execution continues only with a non-nil pointer
		r.assume(st, not(eq(base, "0")))
		if isAggregate(ft) {
			fr.bind(st, x, TV{app(s.subFunc(si, x.Field), base), SInt, x.Type()})
		} else {
			st.env[x] = &Addr{kind: aField, base: base, si: si, field: x.Field, typ: ft}
		}
	case *ssa.Field:
		sv := fr.tv(st, x.X)
		si := s.structOf(x.X.Type())
		ft := si.st.Field(x.Field).Type()
		fr.bind(st, x, TV{app(si.fields[x.Field], sv.S), s.sortOf(ft), ft})
	case *ssa.IndexAddr:
		var arr, idx, length string
		var et types.Type
		i := fr.tv(st, x.Index).S
		switch xt := x.X.Type().Underlying().(type) {
		case *types.Slice:
			if s.keyMode && isByteSlice(x.X.Type()) {
				r.warn("%s: indexing an abstract key", fr.fn.Name())
				st.env[x] = &Addr{kind: aCell, base: r.declare("keybyte", SInt), typ: xt.Elem()}
				return
			}
			sl := fr.tv(st, x.X).S
			arr, idx, length = app("s_arr", sl), add(app("s_off", sl), i), app("s_len", sl)
			et = xt.Elem()
		case *types.Pointer:
			at := xt.Elem().Underlying().(*types.Array)
			arr, idx, length = fr.tv(st, x.X).S, i, num(at.Len())
			et = at.Elem()
		}
		if fr.top && fr.spec.Safety {
			r.oblige(st, "index-in-range", fr.siteLabel(in), "index within bounds", and(app("<=", "0", i), app("<", i, length)))
		}
		// an out-of-range index panics here: execution continues only with the index in range
		r.assume(st, and(app("<=", "0", i), app("<", i, length)))
		idx = r.define("idx", SInt, idx)
		if isAggregate(et) {
			fr.bind(st, x, TV{app("elemref", arr, idx), SInt, x.Type()})
		} else {
			st.env[x] = &Addr{kind: aElem, base: arr, idx: idx, typ: et}
		}
	case *ssa.Index:
		i := fr.tv(st, x.Index).S
		switch xt := x.X.Type().Underlying().(type) {
		case *types.Array:
			av := fr.tv(st, x.X)
			fr.bind(st, x, TV{app("select", av.S, i), s.sortOf(xt.Elem()), xt.Elem()})
		default:
			// string indexing
			fr.bind(st, x, r.freshOf(st, "strbyte", x.Type()))
		}
	case *ssa.UnOp:
		fr.unop(st, x)
	case *ssa.BinOp:
		a, b := fr.tv(st, x.X), fr.tv(st, x.Y)
		fr.bind(st, x, r.binop(st, x.Op, a, b, x.X.Type(), x.Type(), x))
	case *ssa.Store:
		v := fr.tv(st, x.Val)
		pv := fr.val(st, x.Addr)
		pt := x.Addr.Type().Underlying().(*types.Pointer).Elem()
		if isAggregate(pt) {
			ref := r.toTV(st, pv, x.Addr.Type()).S
			fr.checkTransitionsStruct(st, in, ref, pt, v)
			r.storeAt(st, ref, pt, v)
			return
		}
		a := r.derefAddr(st, pv, x.Addr.Type())
		if a.typ == nil {
			a.typ = pt
		}
		fr.checkTransition(st, in, a, v)
		fr.checkGuard(st, a, "write")
		r.store(st, a, v)
	case *ssa.Convert:
		fr.convert(st, x)
	case *ssa.ChangeType:
		v := fr.val(st, x.X)
		if tv, ok := v.(TV); ok {
			tv.T = x.Type()
			if s.sortOf(x.Type()) != tv.Sort {
				tv = r.freshOf(st, "ct", x.Type())
			}
			st.env[x] = tv
		} else {
			st.env[x] = v
		}
	case *ssa.ChangeInterface:
		st.env[x] = fr.val(st, x.X)
	case *ssa.MakeInterface:
		v := fr.val(st, x.X)
		fr.bind(st, x, r.makeIface(st, v, x.X.Type(), x.Type()))
	case *ssa.TypeAssert:
		fr.typeAssert(st, x)
	case *ssa.Extract:
		tup, ok := fr.val(st, x.Tuple).(Tuple)
		if !ok || x.Index >= len(tup) {
			fr.bind(st, x, r.freshOf(st, "ext", x.Type()))
			return
		}
		st.env[x] = tup[x.Index]
	case *ssa.Slice:
		fr.sliceOp(st, x)
	case *ssa.MakeSlice:
		ln, cp := fr.tv(st, x.Len).S, fr.tv(st, x.Cap).S
		if s.keyMode && isByteSlice(x.Type()) {
			fr.bind(st, x, r.freshOf(st, "mkkey", x.Type()))
			return
		}
		ref := r.alloc(st, "mkslice")
		et := x.Type().Underlying().(*types.Slice).Elem()
		if !isAggregate(et) {
			name, h := r.elemHeap(st, et)
			es := s.sortOf(et)
			r.heapSet(st, name, app("store", h, ref, fmt.Sprintf("((as const (Array Int %s)) %s)", es, r.zero(et).S)))
		}
		fr.bind(st, x, TV{app("mk_slice", ref, "0", ln, cp), SSlice, x.Type()})
	case *ssa.MakeMap:
		ref := r.alloc(st, "mkmap")
		mt := x.Type().Underlying().(*types.Map)
		mi := r.mapHeaps(st, mt)
		r.heapSet(st, mi.domName, app("store", mi.dom, ref, fmt.Sprintf("((as const (Array %s Bool)) false)", mi.ksort)))
		r.heapSet(st, mi.lenName, app("store", mi.ln, ref, "0"))
		fr.bind(st, x, TV{ref, SInt, x.Type()})
	case *ssa.MakeChan:
		fr.bind(st, x, TV{r.alloc(st, "mkchan"), SInt, x.Type()})
	case *ssa.MakeClosure:
		c := &Closure{fn: x.Fn.(*ssa.Function)}
		for _, bv := range x.Bindings {
			c.binds = append(c.binds, fr.val(st, bv))
		}
		st.env[x] = c
	case *ssa.Lookup:
		fr.lookup(st, x)
	case *ssa.MapUpdate:
		fr.mapUpdate(st, x)
	case *ssa.Range:
		fr.rangeInit(st, x)
	case *ssa.Next:
		fr.rangeNext(st, x)
	case *ssa.Call:
		res := fr.call(st, x, x.Common(), x)
		if res != nil {
			if tv, ok := res.(TV); ok {
				fr.bind(st, x, tv)
			} else {
				st.env[x] = res
			}
		}
	case *ssa.Defer:
		d := deferEntry{instr: x, guard: "true", order: fr.deferOrd[x]}
		d.fnv = nil
		if !x.Call.IsInvoke() {
			d.fnv = fr.val(st, x.Call.Value)
		} else {
			d.fnv = fr.val(st, x.Call.Value)
		}
		for _, a := range x.Call.Args {
			d.args = append(d.args, fr.val(st, a))
		}
		// a defer executed twice (in a loop) is not modelled
		for _, e := range st.defers {
			if e.instr == x {
				r.warn("%s: defer inside loop", fr.fn.Name())
				return
			}
		}
		st.defers = append(st.defers, d)
	case *ssa.RunDefers:
		fr.runDefers(st)
	case *ssa.Go:
		fr.siteAsserts(st, &x.Call, "go")
		// spawned function contributes nothing to this function's post-state
	case *ssa.Send:
		fr.siteSend(st, x)
	case *ssa.Select:
		fr.selectOp(st, x)
	case *ssa.SliceToArrayPointer, *ssa.MultiConvert:
		if v, ok := in.(ssa.Value); ok {
			fr.bind(st, v, r.freshOf(st, "conv", v.Type()))
		}
	default:
		if v, ok := in.(ssa.Value); ok {
			r.warn("%s: unsupported instruction %T havocked", fr.fn.Name(), in)
			fr.bind(st, v, r.freshOf(st, "unsup", v.Type()))
		}
	}
}

func (fr *Frame) siteLabel(in ssa.Instruction) string {
	if v, ok := in.(ssa.Value); ok {
		return v.Name()
	}
	return fmt.Sprintf("b%d", in.Block().Index)
}

func (fr *Frame) unop(st *State, x *ssa.UnOp) {
	r := fr.run
	switch x.Op {
	case token.MUL: // load
		pv := fr.val(st, x.X)
		pt := x.X.Type().Underlying().(*types.Pointer).Elem()
		if isAggregate(pt) {
			ref := r.toTV(st, pv, x.X.Type()).S
			if fr.top && fr.spec.Safety {
				r.oblige(st, "nil-deref", fr.siteLabel(x), "pointer is not nil", not(eq(ref, "0")))
			}
			v := r.loadAt(st, ref, pt)
			fr.bind(st, x, v)
			return
		}
		a := r.derefAddr(st, pv, x.X.Type())
		if a.typ == nil {
			a.typ = pt
		}
		fr.checkGuard(st, a, "read")
		v := r.load(st, a)
		v.S = r.define(x.Name(), v.Sort, v.S)
		r.assumeGlobal(r.typeInv(v.S, pt, st))
		fr.bind(st, x, v)
	case token.NOT:
		fr.bind(st, x, TV{not(fr.tv(st, x.X).S), SBool, x.Type()})
	case token.SUB:
		v := fr.tv(st, x.X)
		if v.Sort == SReal {
			fr.bind(st, x, TV{app("-", v.S), SReal, x.Type()})
			return
		}
		fr.bind(st, x, TV{wrapIfUnsigned(x.Type(), app("-", v.S)), SInt, x.Type()})
	case token.XOR: // bitwise complement
		v := fr.tv(st, x.X)
		_, signed, _ := intWidth(x.Type())
		if signed {
			if c, ok := numeral(v.S); ok { // complement of a literal (e.g. a constant argument of an inlined call) stays a literal
				fr.bind(st, x, TV{bigNum(new(big.Int).Sub(new(big.Int).Neg(c), big.NewInt(1))), SInt, x.Type()})
			} else {
				fr.bind(st, x, TV{app("-", app("-", v.S), "1"), SInt, x.Type()})
			}
		} else {
			_, hi, _ := intRange(x.Type())
			if c, ok := numeral(v.S); ok {
				fr.bind(st, x, TV{bigNum(new(big.Int).Sub(hi, c)), SInt, x.Type()})
			} else {
				fr.bind(st, x, TV{app("-", bigNum(hi), v.S), SInt, x.Type()})
			}
		}
	case token.ARROW: // channel receive
		ct := x.X.Type().Underlying().(*types.Chan)
		v := r.freshOf(st, "recv", ct.Elem())
		fr.siteRecv(st, x, v)
		if x.CommaOk {
			ok := r.declare("recvok", SBool)
			st.env[x] = Tuple{v, TV{ok, SBool, types.Typ[types.Bool]}}
		} else {
			fr.bind(st, x, v)
		}
	default:
		fr.bind(st, x, r.freshOf(st, "unop", x.Type()))
	}
}

func wrapIfUnsigned(t types.Type, x string) string {
	if _, signed, ok := intWidth(t); ok && !signed {
		return wrapTo(t, x)
	}
	return x
}

func constOf(v ssa.Value) (*big.Int, bool) {
	c, ok := v.(*ssa.Const)
	if !ok || c.Value == nil || c.Value.Kind() != constant.Int {
		// look through conversions of constants
		if cv, ok2 := v.(*ssa.Convert); ok2 {
			return constOf(cv.X)
		}
		return nil, false
	}
	return mustBig(c.Value), true
}

// bitRuns decomposes a non-negative constant into maximal runs of one bits [lo,hi).
func bitRuns(c *big.Int) [][2]uint {
	var runs [][2]uint
	n := uint(c.BitLen())
	for i := uint(0); i < n; {
		if c.Bit(int(i)) == 1 {
			j := i
			for j < n && c.Bit(int(j)) == 1 {
				j++
			}
			runs = append(runs, [2]uint{i, j})
			i = j
		} else {
			i++
		}
	}
	return runs
}

// field extracts bits [lo,hi) of x as a non-negative integer.
func bitField(x string, lo, hi uint) string {
	return app("mod", shrConst(x, lo), pow2(hi-lo).String())
}

// shrConst is floor(x / 2^k), written as a chain of divisions by 256 so that the byte-wise decompositions
// of one value share their quotients (keeps the arithmetic linear for the solver).
func shrConst(x string, k uint) string {
	d := x
	for ; k >= 8; k -= 8 {
		d = app("div", d, "256")
	}
	if k > 0 {
		d = app("div", d, pow2(k).String())
	}
	return d
}

func (r *Run) binop(st *State, op token.Token, a, b TV, opndT, resT types.Type, site *ssa.BinOp) TV {
	res := func(s string) TV { return TV{s, SInt, resT} }
	bres := func(s string) TV { return TV{s, SBool, resT} }
	if a.Sort == SReal || b.Sort == SReal {
		switch op {
		case token.ADD:
			return TV{app("+", a.S, b.S), SReal, resT}
		case token.SUB:
			return TV{app("-", a.S, b.S), SReal, resT}
		case token.MUL:
			return TV{app("*", a.S, b.S), SReal, resT}
		case token.QUO:
			return TV{app("/", a.S, b.S), SReal, resT}
		case token.LSS:
			return bres(app("<", a.S, b.S))
		case token.LEQ:
			return bres(app("<=", a.S, b.S))
		case token.GTR:
			return bres(app(">", a.S, b.S))
		case token.GEQ:
			return bres(app(">=", a.S, b.S))
		case token.EQL:
			return bres(eq(a.S, b.S))
		case token.NEQ:
			return bres(not(eq(a.S, b.S)))
		}
	}
	w, signed, isInt := intWidth(resT)
	_ = w
	var ac, bc *big.Int
	var aIsC, bIsC bool
	if site != nil {
		ac, aIsC = constOf(site.X)
		bc, bIsC = constOf(site.Y)
	}
	if !aIsC {
		ac, aIsC = numeral(a.S)
	}
	if !bIsC {
		bc, bIsC = numeral(b.S)
	}
	switch op {
	case token.ADD:
		if isString(opndT) {
			return TV{app("strcat", a.S, b.S), SInt, resT}
		}
		return res(wrapIfUnsigned(resT, app("+", a.S, b.S)))
	case token.SUB:
		return res(wrapIfUnsigned(resT, app("-", a.S, b.S)))
	case token.MUL:
		return res(wrapIfUnsigned(resT, app("*", a.S, b.S)))
	case token.QUO:
		if !signed {
			return res(app("div", a.S, b.S))
		}
		return res(app("tdiv", a.S, b.S))
	case token.REM:
		if !signed {
			return res(app("mod", a.S, b.S))
		}
		return res(app("trem", a.S, b.S))
	case token.SHL:
		if bIsC && isInt {
			k := uint(bc.Uint64())
			if k >= w {
				return res("0")
			}
			return res(wrapTo(resT, app("*", a.S, pow2(k).String())))
		}
		return res(r.rangeUF(st, "bshl", a.S, b.S, resT))
	case token.SHR:
		if bIsC && isInt {
			k := uint(bc.Uint64())
			if k >= w {
				if signed {
					return res(ite(app("<", a.S, "0"), "(- 1)", "0"))
				}
				return res("0")
			}
			return res(shrConst(a.S, k)) // floor division = arithmetic shift
		}
		return res(r.rangeUF(st, "bshr", a.S, b.S, resT))
	case token.AND, token.OR, token.XOR, token.AND_NOT:
		if a.Sort == SBool {
			switch op {
			case token.AND:
				return bres(and(a.S, b.S))
			case token.OR:
				return bres(or(a.S, b.S))
			case token.XOR:
				return bres(app("xor", a.S, b.S))
			}
		}
		x, c, haveC := a.S, bc, bIsC
		if !haveC && aIsC && op != token.AND_NOT {
			x, c, haveC = b.S, ac, true
		}
		if haveC && isInt {
			cc := new(big.Int).Set(c)
			if cc.Sign() < 0 { // two's complement of the constant at width w
				cc.Add(cc, pow2(w))
			}
			if op == token.AND_NOT {
				cc = new(big.Int).Xor(cc, new(big.Int).Sub(pow2(w), big.NewInt(1)))
				op = token.AND
			}
			runs := bitRuns(cc)
			if len(runs) <= 8 {
				// x as an unsigned w-bit pattern has the same bit fields (floor div/mod work on negatives)
				var terms []string
				switch op {
				case token.AND:
					for _, rn := range runs {
						f := bitField(x, rn[0], rn[1])
						if rn[0] > 0 {
							f = app("*", f, pow2(rn[0]).String())
						}
						terms = append(terms, f)
					}
					if len(terms) == 0 {
						return res("0")
					}
					sum := terms[0]
					if len(terms) > 1 {
						sum = app("+", terms...)
					}
					if signed && cc.Bit(int(w-1)) == 1 {
						sum = wrapTo(resT, sum)
					}
					return res(sum)
				case token.OR:
					terms = append(terms, x)
					for _, rn := range runs {
						full := new(big.Int).Sub(pow2(rn[1]-rn[0]), big.NewInt(1))
						f := app("-", full.String(), bitField(x, rn[0], rn[1]))
						if rn[0] > 0 {
							f = app("*", f, pow2(rn[0]).String())
						}
						terms = append(terms, f)
					}
					sum := app("+", terms...)
					if len(terms) == 1 {
						sum = terms[0]
					}
					if signed {
						sum = wrapTo(resT, sum)
					}
					return res(sum)
				case token.XOR:
					terms = append(terms, x)
					for _, rn := range runs {
						full := new(big.Int).Sub(pow2(rn[1]-rn[0]), big.NewInt(1))
						f := app("-", full.String(), app("*", "2", bitField(x, rn[0], rn[1])))
						if rn[0] > 0 {
							f = app("*", f, pow2(rn[0]).String())
						}
						terms = append(terms, f)
					}
					sum := app("+", terms...)
					if len(terms) == 1 {
						sum = terms[0]
					}
					if signed {
						sum = wrapTo(resT, sum)
					}
					return res(sum)
				}
			}
		}
		if op == token.OR && site != nil && isInt && !signed {
			// (x << k) | y with y < 2^k is an addition
			for _, pair := range [][2]ssa.Value{{site.X, site.Y}, {site.Y, site.X}} {
				if sh, ok := pair[0].(*ssa.BinOp); ok && sh.Op == token.SHL {
					if kc, ok := constOf(sh.Y); ok {
						k := uint(kc.Uint64())
						hi, lo := a.S, b.S
						if pair[0] == site.Y {
							hi, lo = b.S, a.S
						}
						if k < w {
							uf := r.rangeUF(st, "bor", a.S, b.S, resT)
							return res(ite(and(app("<=", "0", lo), app("<", lo, pow2(k).String())), app("+", hi, lo), uf))
						}
					}
				}
			}
		}
		if op == token.OR && site != nil && isInt && !signed {
			// (x & C) | y with 0 <= y < 2^k, k the lowest set bit of the constant C, is an addition (disjoint bits)
			for _, pair := range [][2]ssa.Value{{site.X, site.Y}, {site.Y, site.X}} {
				if an, ok := pair[0].(*ssa.BinOp); ok && an.Op == token.AND {
					var kc *big.Int
					if c, ok := constOf(an.X); ok {
						kc = c
					} else if c, ok := constOf(an.Y); ok {
						kc = c
					}
					if kc != nil && kc.Sign() > 0 {
						k := kc.TrailingZeroBits()
						hi, lo := a.S, b.S
						if pair[0] == site.Y {
							hi, lo = b.S, a.S
						}
						if k > 0 && k < w {
							uf := r.rangeUF(st, "bor", a.S, b.S, resT)
							return res(ite(and(app("<=", "0", lo), app("<", lo, pow2(k).String())), app("+", hi, lo), uf))
						}
					}
				}
			}
		}
		name := map[token.Token]string{token.AND: "band", token.OR: "bor", token.XOR: "bxor", token.AND_NOT: "bandnot"}[op]
		if op == token.AND_NOT {
			name = "band"
			r.warn("&^ with non-constant operand is uninterpreted")
		}
		v := r.rangeUF(st, name, a.S, b.S, resT)
		if op == token.AND {
			// x & y with a non-negative operand lies between 0 and that operand (two's complement, any width)
			r.assumeGlobal(implies(app(">=", a.S, "0"), and(app("<=", "0", v), app("<=", v, a.S))))
			r.assumeGlobal(implies(app(">=", b.S, "0"), and(app("<=", "0", v), app("<=", v, b.S))))
		}
		return res(v)
	case token.EQL:
		return bres(r.equal(a, b, opndT))
	case token.NEQ:
		return bres(not(r.equal(a, b, opndT)))
	case token.LSS:
		return bres(app("<", a.S, b.S))
	case token.LEQ:
		return bres(app("<=", a.S, b.S))
	case token.GTR:
		return bres(app(">", a.S, b.S))
	case token.GEQ:
		return bres(app(">=", a.S, b.S))
	}
	return r.freshOf(st, "binop", resT)
}

// rangeUF applies an uninterpreted bit operation and constrains the result to the type's range.
func (r *Run) rangeUF(st *State, name, a, b string, t types.Type) string {
	v := r.define(name, SInt, app(name, a, b))
	r.assumeGlobal(r.typeInv(v, t, st))
	return v
}

func isString(t types.Type) bool {
	b, ok := t.Underlying().(*types.Basic)
	return ok && b.Info()&types.IsString != 0
}

func (r *Run) equal(a, b TV, t types.Type) string {
	if a.Sort == SSlice || b.Sort == SSlice {
		// only comparison with nil is legal
		if a.Sort == SSlice && strings.HasPrefix(b.S, "(mk_slice 0") {
			return eq(app("s_arr", a.S), "0")
		}
		if b.Sort == SSlice && strings.HasPrefix(a.S, "(mk_slice 0") {
			return eq(app("s_arr", b.S), "0")
		}
	}
	return eq(a.S, b.S)
}

func (fr *Frame) convert(st *State, x *ssa.Convert) {
	r := fr.run
	s := r.eng.sorts
	from, to := x.X.Type(), x.Type()
	v := fr.tv(st, x.X)
	_, _, fromInt := intWidth(from)
	_, _, toInt := intWidth(to)
	switch {
	case fromInt && toInt:
		flo, fhi, _ := intRange(from)
		tlo, thi, _ := intRange(to)
		if flo.Cmp(tlo) >= 0 && fhi.Cmp(thi) <= 0 {
			fr.bind(st, x, TV{v.S, SInt, to})
		} else {
			fr.bind(st, x, TV{wrapTo(to, v.S), SInt, to})
		}
	case v.Sort == SInt && s.sortOf(to) == SInt && !fromInt && !toInt:
		// string <-> key-mode []byte, pointer <-> unsafe.Pointer
		fr.bind(st, x, TV{v.S, SInt, to})
	case fromInt && s.sortOf(to) == SReal:
		fr.bind(st, x, TV{app("to_real", v.S), SReal, to})
	case v.Sort == SReal && toInt:
		// truncation toward zero; values outside the target range are implementation-defined: left arbitrary
		tr := r.define("f2i", SInt, ite(app(">=", v.S, "0.0"), app("to_int", v.S), app("-", app("to_int", app("-", v.S)))))
		lo, hi, _ := intRange(to)
		nv := r.freshOf(st, "f2iv", to)
		r.assumeGlobal(implies(and(app("<=", bigNum(lo), tr), app("<=", tr, bigNum(hi))), eq(nv.S, tr)))
		fr.bind(st, x, nv)
	case v.Sort == SReal && s.sortOf(to) == SReal:
		fr.bind(st, x, TV{v.S, SReal, to})
	case isString(to) && v.Sort == SSlice:
		fr.bind(st, x, TV{app("bytes2str", app("select", fr.elemArr(st, from), app("s_arr", v.S)), app("s_off", v.S), app("s_len", v.S)), SInt, to})
	default:
		nv := r.freshOf(st, "conv", to)
		if s.sortOf(to) == SSlice && isString(from) {
			r.assume(st, eq(app("s_len", nv.S), app("strlen", v.S)))
		}
		fr.bind(st, x, nv)
	}
}

func (fr *Frame) elemArr(st *State, sliceT types.Type) string {
	et := sliceT.Underlying().(*types.Slice).Elem()
	_, h := fr.run.elemHeap(st, et)
	return h
}

func (r *Run) boxName(sort string) string {
	n := "box_" + sanitize(sort)
	if !r.ghostUF[n] {
		r.ghostUF[n] = true
		r.emit(fmt.Sprintf("(declare-fun %s (%s) Int)", n, sort))
		r.emit(fmt.Sprintf("(declare-fun un%s (Int) %s)", n, sort))
		r.assumeBG(fmt.Sprintf("(forall ((x %s)) (! (and (= (un%s (%s x)) x) (< (%s x) 0)) :pattern ((%s x))))", sort, n, n, n, n))
	}
	return n
}

func (r *Run) makeIface(st *State, v Val, from, to types.Type) TV {
	if _, isIface := from.Underlying().(*types.Interface); isIface {
		return r.toTV(st, v, to)
	}
	tag := num(int64(r.eng.typeID(from)))
	tv := r.toTV(st, v, from)
	if isRefSort(from) {
		return TV{app("mk_iface", tag, tv.S), SIface, to}
	}
	return TV{app("mk_iface", tag, app(r.boxName(tv.Sort), tv.S)), SIface, to}
}

func (fr *Frame) typeAssert(st *State, x *ssa.TypeAssert) {
	r := fr.run
	s := r.eng.sorts
	iv := fr.tv(st, x.X)
	at := x.AssertedType
	var val TV
	var okc string
	if _, isIface := at.Underlying().(*types.Interface); isIface {
		val = TV{iv.S, SIface, at}
		okv := r.declare("implok", SBool)
		r.assumeGlobal(implies(okv, not(eq(app("i_tag", iv.S), "0"))))
		if types.AssertableTo(at.Underlying().(*types.Interface), x.X.Type()) && types.Implements(x.X.Type(), at.Underlying().(*types.Interface)) {
			r.assumeGlobal(eq(okv, not(eq(app("i_tag", iv.S), "0"))))
		}
		okc = okv
	} else {
		tag := num(int64(r.eng.typeID(at)))
		okc = eq(app("i_tag", iv.S), tag)
		sort := s.sortOf(at)
		if isRefSort(at) {
			val = TV{app("i_val", iv.S), SInt, at}
		} else {
			val = TV{app("un"+r.boxName(sort), app("i_val", iv.S)), sort, at}
		}
	}
	if x.CommaOk {
		zv := r.zero(at)
		if _, isIface := at.Underlying().(*types.Interface); isIface {
			zv = TV{"(mk_iface 0 0)", SIface, at}
		}
		vv := TV{r.define(x.Name()+"_v", val.Sort, ite(okc, val.S, zv.S)), val.Sort, at}
		st.env[x] = Tuple{vv, TV{r.define(x.Name()+"_ok", SBool, okc), SBool, types.Typ[types.Bool]}}
		return
	}
	if fr.top && fr.spec.Safety {
		r.oblige(st, "type-assert", fr.siteLabel(x), "type assertion succeeds", okc)
	}
	// failing assertion panics: continue only on success
	st.reach = r.define("reach", SBool, and(st.reach, okc))
	fr.bind(st, x, val)
}

func (fr *Frame) sliceOp(st *State, x *ssa.Slice) {
	r := fr.run
	s := r.eng.sorts
	var lo, hi, mx string
	if x.Low != nil {
		lo = fr.tv(st, x.Low).S
	} else {
		lo = "0"
	}
	switch xt := x.X.Type().Underlying().(type) {
	case *types.Slice:
		if s.keyMode && isByteSlice(x.X.Type()) {
			// slicing a key: opaque unless it is the identity k[:]
			if x.Low == nil && x.High == nil {
				st.env[x] = fr.val(st, x.X)
				return
			}
			if x.High == nil && x.Max == nil {
				// k[n:] - the suffix after n bytes
				fr.bind(st, x, TV{r.define("keysuffix", SInt, app("kdrop", fr.tv(st, x.X).S, lo)), SInt, x.Type()})
				return
			}
			r.warn("%s: slicing an abstract key", fr.fn.Name())
			fr.bind(st, x, r.freshOf(st, "keyslice", x.Type()))
			return
		}
		sl := fr.tv(st, x.X).S
		if x.High != nil {
			hi = fr.tv(st, x.High).S
		} else {
			hi = app("s_len", sl)
		}
		if x.Max != nil {
			mx = fr.tv(st, x.Max).S
		} else {
			mx = app("s_cap", sl)
		}
		if fr.top && fr.spec.Safety {
			r.oblige(st, "slice-bounds", fr.siteLabel(x), "slice bounds in range", and(app("<=", "0", lo), app("<=", lo, hi), app("<=", hi, mx), app("<=", mx, app("s_cap", sl))))
		}
		// a zero-length result of slicing keeps a non-nil array unless the source was nil
		fr.bind(st, x, TV{app("mk_slice", app("s_arr", sl), add(app("s_off", sl), lo), sub(hi, lo), sub(mx, lo)), SSlice, x.Type()})
	case *types.Pointer:
		at := xt.Elem().Underlying().(*types.Array)
		n := num(at.Len())
		if x.High != nil {
			hi = fr.tv(st, x.High).S
		} else {
			hi = n
		}
		if x.Max != nil {
			mx = fr.tv(st, x.Max).S
		} else {
			mx = n
		}
		if fr.top && fr.spec.Safety {
			r.oblige(st, "slice-bounds", fr.siteLabel(x), "slice bounds in range", and(app("<=", "0", lo), app("<=", lo, hi), app("<=", hi, mx), app("<=", mx, n)))
		}
		ref := fr.tv(st, x.X).S
		if s.keyMode && isByteSlice(x.Type()) {
			if at.Len() == 0 {
				fr.bind(st, x, TV{"0", SInt, x.Type()}) // []byte{} is the empty key
				return
			}
			fr.bind(st, x, r.freshOf(st, "keyslice", x.Type()))
			return
		}
		fr.bind(st, x, TV{app("mk_slice", ref, lo, sub(hi, lo), sub(mx, lo)), SSlice, x.Type()})
	default: // string
		if x.Low == nil && x.High == nil {
			st.env[x] = fr.val(st, x.X)
			return
		}
		fr.bind(st, x, r.freshOf(st, "substr", x.Type()))
	}
}

// zeroOffsetSlice: v is a slice value all of whose reaching definitions are make, append (modelled as a fresh array) or nil.
func zeroOffsetSlice(v ssa.Value, seen map[ssa.Value]bool) bool {
	if seen[v] {
		return true
	}
	seen[v] = true
	switch x := v.(type) {
	case *ssa.MakeSlice:
		return true
	case *ssa.Const:
		return x.IsNil()
	case *ssa.Phi:
		for _, e := range x.Edges {
			if !zeroOffsetSlice(e, seen) {
				return false
			}
		}
		return true
	case *ssa.Call:
		if b, ok := x.Call.Value.(*ssa.Builtin); ok && b.Name() == "append" {
			if _, isSlice := x.Type().Underlying().(*types.Slice); isSlice {
				return true
			}
		}
	case *ssa.Slice:
		// make([]T, n) with constant n is `new [n]T` sliced from its beginning
		if al, ok := x.X.(*ssa.Alloc); ok && x.Low == nil && al.Comment == "makeslice" {
			return true
		}
	}
	return false
}
