package main

// Inferred mod-sets: which heap components a piece of code may write (DESIGN §3.2). Static, over the SSA
// of the functions inside the module; calls that leave the module or are dynamic are assumed to write
// no modelled component (unchecked assumption, reported).

import (
	"go/token"
	"go/types"
	"strings"

	"golang.org/x/tools/go/ssa"
)

func (e *Eng) heapsOfType(t types.Type, ctx int, out map[string]bool) {
	switch u := t.Underlying().(type) {
	case *types.Struct:
		si := e.sorts.structOf(t)
		for i := 0; i < u.NumFields(); i++ {
			ft := u.Field(i).Type()
			if isAggregate(ft) {
				e.heapsOfType(ft, aField, out)
			} else {
				out[e.fieldHeapName(si, i)] = true
			}
		}
	case *types.Array:
		if isAggregate(u.Elem()) {
			e.heapsOfType(u.Elem(), aElem, out)
		} else {
			out[e.elemHeapName(u.Elem())] = true
		}
	default:
		if e.sorts.keyMode && isByteSlice(t) && ctx == aElem {
			// elements of abstract keys are not modelled
		}
		switch ctx {
		case aElem:
			out[e.elemHeapName(t)] = true
		default:
			out[e.cellHeapName(t)] = true
		}
	}
}

func (e *Eng) storeTargets(addr ssa.Value, out map[string]bool) {
	pt, ok := addr.Type().Underlying().(*types.Pointer)
	if !ok {
		return
	}
	switch a := addr.(type) {
	case *ssa.FieldAddr:
		st := a.X.Type().Underlying().(*types.Pointer).Elem()
		si := e.sorts.structOf(st)
		ft := si.st.Field(a.Field).Type()
		if isAggregate(ft) {
			e.heapsOfType(ft, aField, out)
		} else {
			out[e.fieldHeapName(si, a.Field)] = true
		}
	case *ssa.IndexAddr:
		if e.sorts.keyMode {
			if isByteSlice(a.X.Type()) {
				return
			}
		}
		e.heapsOfType(pt.Elem(), aElem, out)
	case *ssa.Global:
		if isAggregate(pt.Elem()) {
			e.heapsOfType(pt.Elem(), aCell, out)
		} else {
			out[e.globalHeapName("G_"+sanitize(a.Pkg.Pkg.Name()+"_"+a.Name()), pt.Elem())] = true
		}
	case *ssa.Alloc:
		e.heapsOfType(pt.Elem(), aCell, out)
	default:
		e.heapsOfType(pt.Elem(), aCell, out)
		if !isAggregate(pt.Elem()) {
			out[e.elemHeapName(pt.Elem())] = true
		}
	}
}

// allocRoot follows an address (or slice value) back to the allocation it is derived from, if that is
// syntactically evident: a local Alloc, or a make() in the same function.
func allocRoot(v ssa.Value) ssa.Instruction {
	for i := 0; i < 10; i++ {
		switch x := v.(type) {
		case *ssa.Alloc:
			return x
		case *ssa.MakeSlice:
			return x
		case *ssa.MakeMap:
			return x
		case *ssa.FieldAddr:
			v = x.X
		case *ssa.IndexAddr:
			v = x.X
		case *ssa.Slice:
			v = x.X
		case *ssa.ChangeType:
			v = x.X
		default:
			return nil
		}
	}
	return nil
}

// modsetInstr: fresh(a) tells whether allocation a happens inside the code being summarised; stores into
// such objects do not change any pre-existing location and are left out (see DESIGN, mod-sets).
func (e *Eng) modsetInstr(in ssa.Instruction, caller *FuncSpec, visiting map[*ssa.Function]bool, out map[string]bool, fresh func(ssa.Instruction) bool) {
	switch x := in.(type) {
	case *ssa.Store:
		if a := allocRoot(x.Addr); a != nil && fresh(a) {
			return
		}
		e.storeTargets(x.Addr, out)
	case *ssa.MapUpdate:
		if a := allocRoot(x.Map); a != nil && fresh(a) {
			return
		}
		mi := (&Run{eng: e}).mapHeaps(nil, x.Map.Type().Underlying().(*types.Map))
		out[mi.mName], out[mi.domName], out[mi.lenName] = true, true, true
	case *ssa.Range:
		if mt, ok := x.X.Type().Underlying().(*types.Map); ok {
			out[e.regHeap("IT_"+shortTypeName(mt.Key()), "(Array Int (Array "+e.sorts.sortOf(mt.Key())+" Bool))", nil)] = true
		}
	case *ssa.Next:
		if rg, ok := x.Iter.(*ssa.Range); ok {
			if mt, ok := rg.X.Type().Underlying().(*types.Map); ok {
				out[e.regHeap("IT_"+shortTypeName(mt.Key()), "(Array Int (Array "+e.sorts.sortOf(mt.Key())+" Bool))", nil)] = true
			}
		}
	case *ssa.UnOp:
		if x.Op == token.ARROW {
			out[e.regHeap("GH_recv", "(Array Int Int)", types.Typ[types.Int])] = true
		}
	case *ssa.Select:
		for _, sc := range x.States {
			if sc.Dir == types.RecvOnly {
				out[e.regHeap("GH_recv", "(Array Int Int)", types.Typ[types.Int])] = true
			}
		}
	case *ssa.Call:
		e.modsetCall(x.Common(), caller, visiting, out, fresh)
	case *ssa.Defer:
		e.modsetCall(&x.Call, caller, visiting, out, fresh)
	case *ssa.Go:
		// the spawned goroutine's writes are not part of this function's post-state
	}
}

func (e *Eng) modsetCall(c *ssa.CallCommon, caller *FuncSpec, visiting map[*ssa.Function]bool, out map[string]bool, fresh func(ssa.Instruction) bool) {
	if b, ok := c.Value.(*ssa.Builtin); ok {
		switch b.Name() {
		case "copy":
			if a := allocRoot(c.Args[0]); a != nil && fresh(a) {
				return
			}
			if sl, ok := c.Args[0].Type().Underlying().(*types.Slice); ok {
				if e.sorts.keyMode && isByteSlice(c.Args[0].Type()) {
					return
				}
				e.heapsOfType(sl.Elem(), aElem, out)
			}
		case "delete", "clear":
			if a := allocRoot(c.Args[0]); a != nil && fresh(a) {
				return
			}
			if mt, ok := c.Args[0].Type().Underlying().(*types.Map); ok {
				mi := (&Run{eng: e}).mapHeaps(nil, mt)
				out[mi.mName], out[mi.domName], out[mi.lenName] = true, true, true
			}
		}
		return
	}
	if c.IsInvoke() {
		name := "(" + types.TypeString(c.Value.Type(), nil) + ")." + c.Method.Name()
		if sp := e.specs.Funcs[name]; sp != nil && sp.HasMod {
			for k := range e.declaredMods(sp, nil) {
				out[k] = true
			}
		}
		return
	}
	fn := c.StaticCallee()
	if fn == nil {
		// closure created in place?
		if mc, ok := c.Value.(*ssa.MakeClosure); ok {
			fn, _ = mc.Fn.(*ssa.Function)
		}
	}
	if fn == nil {
		return
	}
	if fn.Pkg != nil && fn.Pkg.Pkg.Path() == "sync/atomic" && len(c.Args) > 0 && fn.Signature.Recv() == nil {
		// intrinsics write exactly the location they are given
		if strings.HasPrefix(fn.Name(), "Store") || strings.HasPrefix(fn.Name(), "Add") || strings.HasPrefix(fn.Name(), "CompareAndSwap") || strings.HasPrefix(fn.Name(), "Swap") || strings.HasPrefix(fn.Name(), "And") || strings.HasPrefix(fn.Name(), "Or") {
			if a := allocRoot(c.Args[0]); a != nil && fresh(a) {
				return
			}
			e.storeTargets(c.Args[0], out)
		}
		return
	}
	for k := range e.modsetFunc(fn, visiting) {
		out[k] = true
	}
}

func (e *Eng) modsetFunc(fn *ssa.Function, visiting map[*ssa.Function]bool) map[string]bool {
	if m, ok := e.modCache[fn]; ok {
		return m
	}
	out := map[string]bool{}
	name := fn.String()
	if sp := e.specs.Funcs[name]; sp != nil && (sp.HasMod || sp.Pure) {
		if sp.HasMod {
			out = e.declaredMods(sp, nil)
		}
		e.modCache[fn] = out
		return out
	}
	switch {
	case strings.HasPrefix(name, "(*sync.Mutex)"), strings.HasPrefix(name, "(*sync.RWMutex)"):
		out[e.regHeap("GH_held", "(Array Int Int)", types.Typ[types.Int])] = true
		return out
	}
	if fn.Pkg == nil || !(e.inModule(fn.Pkg.Pkg.Path()) || e.inlineExternal(fn)) || len(fn.Blocks) == 0 {
		if fn.Pkg != nil && fn.Pkg.Pkg.Path() == "sync/atomic" {
			// intrinsics: writes through their pointer argument
			if len(fn.Params) > 0 && (strings.HasPrefix(fn.Name(), "Store") || strings.HasPrefix(fn.Name(), "Add") || strings.HasPrefix(fn.Name(), "CompareAndSwap") || strings.HasPrefix(fn.Name(), "Swap")) {
				if pt, ok := fn.Params[0].Type().Underlying().(*types.Pointer); ok {
					e.heapsOfType(pt.Elem(), aCell, out)
				}
			}
		}
		return out
	}
	if visiting[fn] {
		return out
	}
	visiting[fn] = true
	for _, b := range fn.Blocks {
		for _, in := range b.Instrs {
			e.modsetInstr(in, nil, visiting, out, func(a ssa.Instruction) bool { return true })
		}
	}
	for _, an := range fn.AnonFuncs {
		// closures defined here may be called later by anyone holding them; include those invoked via defer/call sites only
		_ = an
	}
	delete(visiting, fn)
	if sp := e.specs.Funcs[name]; sp != nil && len(sp.AlsoMods) > 0 {
		for k := range e.declaredMods(&FuncSpec{Name: sp.Name, Pkg: sp.Pkg, Modifies: sp.AlsoMods, HasMod: true}, nil) {
			out[k] = true
		}
	}
	if len(visiting) == 0 {
		e.modCache[fn] = out
	}
	return out
}

// modsetBlocks: heap components written by the given blocks (a loop body).
func (e *Eng) modsetBlocks(blocks map[*ssa.BasicBlock]bool, caller *FuncSpec) map[string]bool {
	out := map[string]bool{}
	for b := range blocks {
		for _, in := range b.Instrs {
			e.modsetInstr(in, caller, map[*ssa.Function]bool{}, out, func(a ssa.Instruction) bool { return blocks[a.Block()] })
		}
	}
	// a store through a field address of an atomic or a write via atomic intrinsic on a field
	for b := range blocks {
		for _, in := range b.Instrs {
			if c, ok := in.(*ssa.Call); ok {
				if fn := c.Common().StaticCallee(); fn != nil && fn.Pkg != nil && fn.Pkg.Pkg.Path() == "sync/atomic" && len(c.Common().Args) > 0 {
					e.storeTargets(c.Common().Args[0], out)
				}
			}
		}
	}
	return out
}

// mapPointTargets refines the havoc of map heaps for a loop body: when every modification of a map heap in the body is a
// direct update or delete on a map value that is defined outside the body (loop-invariant), only the rows of those maps
// change. Returns heap name -> the map values, for the heaps that can be refined.
func (e *Eng) mapPointTargets(blocks map[*ssa.BasicBlock]bool, caller *FuncSpec) map[string][]ssa.Value {
	fresh := func(a ssa.Instruction) bool { return blocks[a.Block()] }
	viaCalls := map[string]bool{}
	direct := map[string][]ssa.Value{}
	bad := map[string]bool{}
	note := func(m ssa.Value) {
		mt, ok := m.Type().Underlying().(*types.Map)
		if !ok {
			return
		}
		if a := allocRoot(m); a != nil && fresh(a) {
			return
		}
		mi := (&Run{eng: e}).mapHeaps(nil, mt)
		inv := true
		if in, ok := m.(ssa.Instruction); ok && blocks[in.Block()] {
			inv = false
		}
		for _, h := range []string{mi.mName, mi.domName, mi.lenName} {
			if !inv {
				bad[h] = true
				continue
			}
			dup := false
			for _, v := range direct[h] {
				if v == m {
					dup = true
				}
			}
			if !dup {
				direct[h] = append(direct[h], m)
			}
		}
	}
	for b := range blocks {
		for _, in := range b.Instrs {
			switch x := in.(type) {
			case *ssa.MapUpdate:
				note(x.Map)
			case *ssa.Call, *ssa.Defer:
				c := x.(ssa.CallInstruction).Common()
				if bi, ok := c.Value.(*ssa.Builtin); ok && (bi.Name() == "delete" || bi.Name() == "clear") {
					note(c.Args[0])
					continue
				}
				e.modsetCall(c, caller, map[*ssa.Function]bool{}, viaCalls, fresh)
			}
		}
	}
	out := map[string][]ssa.Value{}
	for h, vs := range direct {
		if !bad[h] && !viaCalls[h] {
			out[h] = vs
		}
	}
	return out
}

// declaredMods resolves a `modifies` clause into heap component names.
// Entries: T.f | elems(T) | cell(T) | map(K,V) | global(pkg.name) | raw heap name.
func (e *Eng) declaredMods(sp *FuncSpec, _ *evalCtx) map[string]bool {
	out := map[string]bool{}
	pkg := e.typesPkg(sp.Pkg)
	cx := &evalCtx{run: &Run{eng: e}, pkg: pkg}
	for _, m := range sp.Modifies {
		if i := strings.Index(m, " of "); i >= 0 {
			m = strings.TrimSpace(m[:i])
		}
		switch {
		case strings.HasPrefix(m, "elems(") && strings.HasSuffix(m, ")"):
			if t, err := cx.resolveType(m[6 : len(m)-1]); err == nil {
				e.heapsOfType(t, aElem, out)
			} else {
				e.specErrors = append(e.specErrors, sp.Name+": modifies: "+err.Error())
			}
		case strings.HasPrefix(m, "cell(") && strings.HasSuffix(m, ")"):
			if t, err := cx.resolveType(m[5 : len(m)-1]); err == nil {
				e.heapsOfType(t, aCell, out)
			} else {
				e.specErrors = append(e.specErrors, sp.Name+": modifies: "+err.Error())
			}
		case strings.HasPrefix(m, "map[") || strings.HasPrefix(m, "map("):
			if t, err := cx.resolveType(strings.Replace(strings.Replace(m, "map(", "map[", 1), ",", "]", 1)); err == nil {
				if mt, ok := t.Underlying().(*types.Map); ok {
					mi := (&Run{eng: e}).mapHeaps(nil, mt)
					out[mi.mName], out[mi.domName], out[mi.lenName] = true, true, true
				}
			} else {
				e.specErrors = append(e.specErrors, sp.Name+": modifies: "+err.Error())
			}
		case strings.HasPrefix(m, "H_") || strings.HasPrefix(m, "E_") || strings.HasPrefix(m, "C_") || strings.HasPrefix(m, "G_") || strings.HasPrefix(m, "GH_"):
			out[m] = true
		case strings.Contains(m, "."):
			i := strings.LastIndex(m, ".")
			t, err := cx.resolveType(m[:i])
			if err != nil {
				e.specErrors = append(e.specErrors, sp.Name+": modifies: "+err.Error())
				continue
			}
			if gf := e.ghostField(t, m[i+1:]); gf != nil {
				out[gf.heap] = true
				continue
			}
			st, ok := t.Underlying().(*types.Struct)
			if !ok {
				e.specErrors = append(e.specErrors, sp.Name+": modifies: "+m+" is not a struct field")
				continue
			}
			si := e.sorts.structOf(t)
			found := false
			for k := 0; k < st.NumFields(); k++ {
				if st.Field(k).Name() == m[i+1:] {
					found = true
					if isAggregate(st.Field(k).Type()) {
						e.heapsOfType(st.Field(k).Type(), aField, out)
					} else {
						out[e.fieldHeapName(si, k)] = true
					}
				}
			}
			if !found {
				e.specErrors = append(e.specErrors, sp.Name+": modifies: no field "+m)
			}
		default:
			e.specErrors = append(e.specErrors, sp.Name+": modifies: cannot resolve "+m)
		}
	}
	return out
}

// closureWrites splits what a closure may write into (a) its own captured variables (by free-variable index) and
// (b) heap components written otherwise.
func (e *Eng) closureWrites(fn *ssa.Function) (map[int]bool, map[string]bool) {
	fv := map[int]bool{}
	out := map[string]bool{}
	idx := map[*ssa.FreeVar]int{}
	for i, f := range fn.FreeVars {
		idx[f] = i
	}
	for _, b := range fn.Blocks {
		for _, in := range b.Instrs {
			if st, ok := in.(*ssa.Store); ok {
				if f, ok := st.Addr.(*ssa.FreeVar); ok {
					fv[idx[f]] = true
					continue
				}
			}
			e.modsetInstr(in, nil, map[*ssa.Function]bool{fn: true}, out, func(a ssa.Instruction) bool { return true })
		}
	}
	return fv, out
}
