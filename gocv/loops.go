package main

import (
	"fmt"
	"sort"
	"strings"

	"golang.org/x/tools/go/ssa"
)

type loop struct {
	header  *ssa.BasicBlock
	body    map[*ssa.BasicBlock]bool
	ordinal int
	spec    *LoopSpec
}

type loopInfo struct {
	loops    []*loop
	byHeader map[*ssa.BasicBlock]*loop
}

func findLoops(fn *ssa.Function) *loopInfo {
	li := &loopInfo{byHeader: map[*ssa.BasicBlock]*loop{}}
	for _, b := range fn.Blocks {
		for _, s := range b.Succs {
			if s.Dominates(b) {
				l := li.byHeader[s]
				if l == nil {
					l = &loop{header: s, body: map[*ssa.BasicBlock]bool{s: true}}
					li.byHeader[s] = l
					li.loops = append(li.loops, l)
				}
				// reverse reachability from b up to the header
				stack := []*ssa.BasicBlock{b}
				for len(stack) > 0 {
					x := stack[len(stack)-1]
					stack = stack[:len(stack)-1]
					if l.body[x] {
						continue
					}
					l.body[x] = true
					stack = append(stack, x.Preds...)
				}
			}
		}
	}
	sort.Slice(li.loops, func(i, j int) bool { return li.loops[i].header.Index < li.loops[j].header.Index })
	for i, l := range li.loops {
		l.ordinal = i + 1
	}
	return li
}

// ctx records the iteration number of every enclosing *unrolled* loop.
type ctxEntry struct {
	hdr  int // header block index
	iter int
}
type nodeCtx []ctxEntry

func (c nodeCtx) key() string {
	var sb strings.Builder
	for _, e := range c {
		fmt.Fprintf(&sb, "%d:%d,", e.hdr, e.iter)
	}
	return sb.String()
}

type node struct {
	b   *ssa.BasicBlock
	ctx nodeCtx
}

func (n node) key() string { return fmt.Sprintf("%d@%s", n.b.Index, n.ctx.key()) }

type edge struct {
	from    string // node key
	predIdx int    // index of from-block in to.b.Preds
	succIdx int    // index of the successor in from.b.Succs
}

const (
	edgeForward = iota
	edgeBackInv
	edgeUnwindFail
)

// succNode computes the expanded successor of node n along its k-th successor edge.
func (li *loopInfo) succNode(n node, k int) (node, int) {
	s := n.b.Succs[k]
	if l := li.byHeader[s]; l != nil && l.body[n.b] && s.Dominates(n.b) {
		// back edge
		if l.spec != nil && l.spec.Peel > 0 && l.spec.Unroll == 0 {
			var nc nodeCtx
			iter := 0
			for _, e := range n.ctx {
				if e.hdr == s.Index {
					iter = e.iter
					break
				}
				nc = append(nc, e)
			}
			if iter < l.spec.Peel {
				return node{s, append(nc, ctxEntry{s.Index, iter + 1})}, edgeForward
			}
			return node{s, append(nc, ctxEntry{s.Index, l.spec.Peel})}, edgeBackInv
		}
		if l.spec != nil && l.spec.Unroll > 0 {
			var nc nodeCtx
			iter := -1
			for _, e := range n.ctx {
				if e.hdr == s.Index {
					iter = e.iter
					nc = append(nc, ctxEntry{e.hdr, e.iter + 1})
					break // drop inner loops' entries
				}
				nc = append(nc, e)
			}
			if iter+1 > l.spec.Unroll {
				return node{}, edgeUnwindFail
			}
			return node{s, nc}, edgeForward
		}
		return node{s, li.restrict(n.ctx, s)}, edgeBackInv
	}
	nc := li.restrict(n.ctx, s)
	if l := li.byHeader[s]; l != nil && l.spec != nil && (l.spec.Unroll > 0 || l.spec.Peel > 0) {
		found := false
		for _, e := range nc {
			if e.hdr == s.Index {
				found = true
			}
		}
		if !found {
			nc = append(nc, ctxEntry{s.Index, 0})
		}
	}
	return node{s, nc}, edgeForward
}

// restrict drops the entries of loops that do not contain block s.
func (li *loopInfo) restrict(c nodeCtx, s *ssa.BasicBlock) nodeCtx {
	var nc nodeCtx
	for _, e := range c {
		for _, l := range li.loops {
			if l.header.Index == e.hdr && l.body[s] {
				nc = append(nc, e)
			}
		}
	}
	return nc
}

// isCutNode: the header node at which the loop is cut (for peeled loops: only after the peeled iterations).
func (li *loopInfo) isCutNode(n node) bool {
	l := li.byHeader[n.b]
	if l == nil || (l.spec != nil && l.spec.Unroll > 0) {
		return false
	}
	if l.spec != nil && l.spec.Peel > 0 {
		for _, e := range n.ctx {
			if e.hdr == n.b.Index {
				return e.iter == l.spec.Peel
			}
		}
		return false
	}
	return true
}

func predIndex(from, to *ssa.BasicBlock, nth int) int {
	// index of the nth occurrence of from in to.Preds
	c := 0
	for i, p := range to.Preds {
		if p == from {
			if c == nth {
				return i
			}
			c++
		}
	}
	return -1
}
