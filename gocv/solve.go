package main

import (
	"bytes"
	"encoding/json"
	"go/types"
	"context"
	"fmt"
	"os"
	"os/exec"
	"path/filepath"
	"strings"
	"sync"
	"time"
)

type solverDef struct {
	name string
	args func(file string, timeoutS int) []string
	pre  string
}

var solvers = []solverDef{
	{"z3-new", func(f string, t int) []string { return []string{"z3-new", fmt.Sprintf("-T:%d", t), f} }, ""},
	{"z3", func(f string, t int) []string { return []string{"z3", fmt.Sprintf("-T:%d", t), f} }, ""},
	{"cvc5", func(f string, t int) []string {
		return []string{"cvc5", "--incremental", fmt.Sprintf("--tlimit=%d", t*1000), f}
	}, "(set-option :produce-models true)\n(set-logic ALL)\n"},
}

// solverHints: which solver discharged an obligation last time (a performance hint only: answers are never cached).
var solverHints = map[string]string{}

// crossCheck: thorough tier - every proof is re-run on the other solvers.
var crossCheck bool

func loadSolverHints(path string) {
	data, err := os.ReadFile(path)
	if err != nil {
		return
	}
	json.Unmarshal(data, &solverHints)
}

func (o *Obligation) query(withModel, noBG bool) string {
	var b strings.Builder
	r := o.run
	for _, d := range r.eng.sorts.decls {
		if noBG && strings.HasSuffix(d, ";bg") {
			continue
		}
		b.WriteString(d)
		b.WriteByte('\n')
	}
	for _, c := range r.script[:o.prefixLen] {
		if noBG && strings.HasSuffix(c, ";bg") {
			continue
		}
		b.WriteString(c)
		b.WriteByte('\n')
	}
	if o.isCover {
		b.WriteString(app("assert", o.goal))
	} else {
		b.WriteString(app("assert", not(o.goal)))
	}
	b.WriteString("\n(check-sat)\n")
	if withModel && len(r.inputs) > 0 {
		var vs []string
		for _, in := range r.modelInputs() {
			vs = append(vs, in.tv.S)
		}
		b.WriteString("(get-value (" + strings.Join(vs, " ") + "))\n")
	}
	return b.String()
}

func runSolver(sd solverDef, query string, dir, tag string, timeoutS int) (string, string, float64) {
	f := filepath.Join(dir, tag+"."+sd.name+".smt2")
	if err := os.WriteFile(f, []byte(sd.pre+query), 0o644); err != nil {
		return "error", err.Error(), 0
	}
	args := sd.args(f, timeoutS)
	ctx, cancel := context.WithTimeout(context.Background(), time.Duration(timeoutS+5)*time.Second)
	defer cancel()
	t0 := time.Now()
	cmd := exec.CommandContext(ctx, args[0], args[1:]...)
	var out bytes.Buffer
	cmd.Stdout = &out
	cmd.Stderr = &out
	cmd.Run()
	secs := time.Since(t0).Seconds()
	text := out.String()
	first := ""
	for _, ln := range strings.Split(text, "\n") {
		ln = strings.TrimSpace(ln)
		if ln == "" || strings.HasPrefix(ln, "WARNING") || strings.HasPrefix(ln, "(warning") {
			continue
		}
		first = ln
		break
	}
	switch first {
	case "sat", "unsat", "unknown":
		return first, text, secs
	case "timeout":
		return "timeout", text, secs
	}
	if ctx.Err() != nil {
		return "timeout", text, secs
	}
	return "error", text, secs
}

// discharge decides one obligation with the solver portfolio.
func discharge(o *Obligation, dir string, timeoutS int, idx int) {
	if o.parts != nil {
		dischargeParts(o, dir, timeoutS, idx)
		return
	}
	// vacuity covers keep the background axioms: an inconsistency involving them must show up as a quick "unsat"
	q := o.query(true, false)
	o.QuerySize = len(q)
	tag := fmt.Sprintf("o%04d", idx)
	want := "unsat"
	bad := "sat"
	if o.isCover {
		want, bad = "sat", "unsat"
	}
	if o.isCover && timeoutS > 2 {
		timeoutS = 2 // vacuity covers: a quick look only; "unknown" is recorded as inconclusive
	}
	if o.exceptObl != nil && timeoutS > 3 {
		timeoutS = 3 // a recorded known finding is expected to fail here; the decision is made on its except-query
	}
	first := solvers[0]
	if h, ok := solverHints[o.Name]; ok && !o.isCover {
		for _, sd := range solvers {
			if sd.name == h {
				first = sd
			}
		}
	}
	res, text, secs := runSolver(first, q, dir, tag, timeoutS)
	o.Result, o.Solver, o.Secs, o.Raw = res, first.name, secs, text
	if crossCheck && res == "unsat" && !o.isCover && o.exceptObl == nil {
		// thorough tier: a proof found by one solver is put to the other two; an answer "sat" from any of them is a
		// disagreement and reported as a violation (time-outs of the others are not)
		for _, sd := range solvers {
			if sd.name == first.name {
				continue
			}
			r2, t2, s2 := runSolver(sd, q, dir, tag+"x", timeoutS)
			o.Secs += s2
			if r2 == "unsat" {
				o.Confirmed = append(o.Confirmed, sd.name)
			}
			if r2 == "sat" {
				o.Result, o.Solver, o.Raw, o.Model = "disagree", sd.name, t2, t2
				return
			}
		}
	}
	if res == want || res == bad || o.isCover || o.exceptObl != nil {
		if res == "sat" {
			o.Model = text
		}
		if o.isCover && res == "unsat" && o.coverPre != nil {
			discharge(o.coverPre, dir, timeoutS, idx+50000)
			if o.coverPre.Result == "unsat" {
				o.Result = "dead-path"
			}
		}
		return
	}
	defer func() {
		// counterexample search for an undecided goal: without the background quantifiers a model comes quickly
		if !o.isCover && o.Result != "unsat" && o.Model == "" {
			r2, t2, s2 := runSolver(solvers[0], o.query(true, true), dir, tag+"m", 5)
			o.Secs += s2
			if r2 == "sat" {
				o.Model = t2
				o.ModelWeak = true
			}
		}
	}()
	// fall back to the other solvers in parallel
	type ans struct {
		res, text, name string
		secs           float64
	}
	ch := make(chan ans, 2)
	for _, sd := range solvers {
		if sd.name == first.name {
			continue
		}
		go func(sd solverDef) {
			r, t, s := runSolver(sd, q, dir, tag, timeoutS)
			ch <- ans{r, t, sd.name, s}
		}(sd)
	}
	for i := 0; i < 2; i++ {
		a := <-ch
		if a.res == want || (a.res == bad && o.Result != want) {
			o.Result, o.Solver, o.Raw = a.res, a.name, a.text
			o.Secs += a.secs
			if a.res == "sat" {
				o.Model = a.text
			}
			if a.res == want {
				return
			}
		}
	}
}

// dischargeParts: all parts must be unsat; the first part that is not decides the answer.
func dischargeParts(o *Obligation, dir string, timeoutS int, idx int) {
	o.Result, o.Solver = "unsat", solvers[0].name
	var wg sync.WaitGroup
	for k, p := range o.parts {
		wg.Add(1)
		go func(k int, p *Obligation) {
			defer wg.Done()
			discharge(p, dir, timeoutS, idx*100+k)
		}(k, p)
	}
	wg.Wait()
	for _, p := range o.parts {
		o.Secs += p.Secs
		o.QuerySize += p.QuerySize
		if p.Result != "unsat" && o.Result == "unsat" {
			o.Result, o.Solver, o.Model, o.Raw, o.ModelWeak = p.Result, p.Solver, p.Model, p.Raw, p.ModelWeak
			o.prefixLen, o.goal = p.prefixLen, p.goal
			o.exceptObl = p.exceptObl
			o.failedPart = p
		} else if p.Solver != solvers[0].name && o.Result == "unsat" {
			o.Solver = p.Solver
		}
	}
}

// retryFailed: an obligation that did not come back unsat under load is tried once more on an idle machine with
// three times the time and all solvers at once, before it is reported.
func retryFailed(obls []*Obligation, dir string, timeoutS int) {
	var wg sync.WaitGroup
	sem := make(chan struct{}, 4)
	for i, o := range obls {
		if o.isCover || o.Result == "unsat" {
			continue
		}
		wg.Add(1)
		go func(i int, o *Obligation) {
			defer wg.Done()
			sem <- struct{}{}
			defer func() { <-sem }()
			retryOne(i, o, dir, timeoutS)
		}(i, o)
	}
	wg.Wait()
}

func retryOne(i int, o *Obligation, dir string, timeoutS int) {
	{
		targets := []*Obligation{o}
		if o.parts != nil {
			targets = nil
			for _, p := range o.parts {
				if p.Result != "unsat" && p.exceptObl == nil {
					targets = append(targets, p)
				}
				if p.Result != "unsat" && p.exceptObl != nil {
					return // known finding: decided by the except-query
				}
			}
		}
		allOK := true
		for k, t := range targets {
			q := t.query(true, false)
			type ans struct {
				res, text, name string
				secs           float64
			}
			ch := make(chan ans, len(solvers))
			for _, sd := range solvers {
				go func(sd solverDef) {
					r, tx, s := runSolver(sd, q, dir, fmt.Sprintf("r%04d_%d", i, k), timeoutS*2)
					ch <- ans{r, tx, sd.name, s}
				}(sd)
			}
			ok := false
			for range solvers {
				a := <-ch
				if a.res == "unsat" && !ok {
					ok = true
					t.Result, t.Solver = "unsat", a.name
					t.Secs += a.secs
				}
			}
			if !ok {
				allOK = false
			}
		}
		if allOK {
			o.Result = "unsat"
			o.Retried = true
			if o.parts != nil {
				o.Solver = "z3-new"
				for _, p := range o.parts {
					if p.Solver != "z3-new" {
						o.Solver = p.Solver
					}
				}
			} else {
				o.Solver = targets[0].Solver
			}
		}
	}
}

func dischargeAll(obls []*Obligation, dir string, timeoutS, workers int) {
	var wg sync.WaitGroup
	ch := make(chan int)
	for w := 0; w < workers; w++ {
		wg.Add(1)
		go func() {
			defer wg.Done()
			for i := range ch {
				discharge(obls[i], dir, timeoutS, i)
			}
		}()
	}
	for i := range obls {
		ch <- i
	}
	close(ch)
	wg.Wait()
	retryFailed(obls, dir, timeoutS)
}

// modelInputs: the parameters plus, for parameters that point to structs, the entry values of their scalar fields.
func (r *Run) modelInputs() []inputVar {
	if r.modelIn != nil {
		return r.modelIn
	}
	out := append([]inputVar(nil), r.inputs...)
	for _, in := range r.inputs {
		if in.tv.T == nil {
			continue
		}
		pt, ok := in.tv.T.Underlying().(*types.Pointer)
		if !ok || !isStruct(pt.Elem()) {
			continue
		}
		si := r.eng.sorts.structOf(pt.Elem())
		for i := 0; i < si.st.NumFields(); i++ {
			ft := si.st.Field(i).Type()
			if isAggregate(ft) {
				continue
			}
			name := r.eng.fieldHeapName(si, i)
			if h, ok := r.heapInit[name]; ok {
				out = append(out, inputVar{in.name + "." + si.st.Field(i).Name(), TV{app("select", h, in.tv.S), r.eng.sorts.sortOf(ft), ft}})
			}
		}
	}
	r.modelIn = out
	return out
}
