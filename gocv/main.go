package main

import (
	"encoding/json"
	"flag"
	"fmt"
	"os"
	"path/filepath"
	"runtime"
	"sort"
	"strconv"
	"strings"
	"time"

	"golang.org/x/tools/go/ssa"
)

type sample struct {
	Obligation string  `json:"obligation"`
	Function   string  `json:"function"`
	Kind       string  `json:"kind"`
	Contract   string  `json:"contract"`
	Result     string  `json:"result"`
	Solver     string  `json:"solver"`
	Seconds    float64 `json:"seconds"`
	QueryBytes int     `json:"query_bytes"`
}

func main() {
	// type aliases are transparent for the verifier: do not materialise types.Alias nodes (`type A = pkg.B` is pkg.B
	// everywhere, so both spellings share one SMT sort and one heap component)
	os.Setenv("GODEBUG", "gotypesalias=0")
	if len(os.Args) < 2 {
		fmt.Fprintln(os.Stderr, "usage: gocv check|dump ...")
		os.Exit(2)
	}
	switch os.Args[1] {
	case "check":
		os.Exit(cmdCheck(os.Args[2:]))
	case "dump":
		os.Exit(cmdDump(os.Args[2:]))
	case "replay":
		os.Exit(cmdReplay(os.Args[2:]))
	}
	fmt.Fprintln(os.Stderr, "unknown command")
	os.Exit(2)
}

func cmdDump(args []string) int {
	fs := flag.NewFlagSet("dump", flag.ExitOnError)
	repo := fs.String("repo", "/repo", "")
	pkg := fs.String("pkg", "", "")
	fn := fs.String("func", "", "")
	fs.Parse(args)
	l, err := loadProgram(*repo, []string{*pkg})
	if err != nil {
		fmt.Fprintln(os.Stderr, err)
		return 2
	}
	e := newEng(l, newSpecDB(), false)
	for name, f := range e.funcIndex {
		if strings.HasSuffix(name, *fn) {
			f.WriteTo(os.Stdout)
			li := findLoops(f)
			for _, lp := range li.loops {
				fmt.Printf("loop %d: header block %d\n", lp.ordinal, lp.header.Index)
			}
		}
	}
	return 0
}

type checkOpts struct {
	prop, tier, repo, verif string
	timeout                 int
	only                    string
	keep                    bool
	verbose                 bool
}

func loadSpecs(repo, verif string) (*SpecDB, error) {
	db := newSpecDB()
	files, err := findContractFiles(repo, "github.com/tikv/client-go/v2")
	if err != nil {
		return nil, err
	}
	var paths []string
	for p := range files {
		paths = append(paths, p)
	}
	sort.Strings(paths)
	for _, p := range paths {
		if err := db.LoadFile(p, files[p]); err != nil {
			return nil, err
		}
	}
	ext, _ := filepath.Glob(filepath.Join(verif, "contracts", "_external", "*.go"))
	sort.Strings(ext)
	for _, p := range ext {
		if err := db.LoadFile(p, ""); err != nil {
			return nil, err
		}
	}
	return db, nil
}

func cmdCheck(args []string) int {
	fs := flag.NewFlagSet("check", flag.ExitOnError)
	var o checkOpts
	fs.StringVar(&o.prop, "prop", "", "property id")
	fs.StringVar(&o.tier, "tier", "quick", "quick|thorough")
	fs.StringVar(&o.repo, "repo", "/repo", "")
	fs.StringVar(&o.verif, "verif", "/verif", "")
	fs.IntVar(&o.timeout, "timeout", 0, "per-obligation solver timeout (s)")
	fs.StringVar(&o.only, "only", "", "restrict to functions whose name contains this")
	fs.BoolVar(&o.keep, "keep", false, "keep SMT files")
	fs.BoolVar(&o.verbose, "v", false, "")
	fs.Parse(args)
	if t := os.Getenv("VERIF_TIER"); t == "quick" || t == "thorough" {
		o.tier = t
	}
	if o.timeout == 0 {
		o.timeout = 10
		if o.tier == "thorough" {
			o.timeout = 60
		}
	}
	crossCheck = o.tier == "thorough"
	return runCheck(o)
}

type funcReport struct {
	Name        string   `json:"name"`
	Obligations int      `json:"obligations"`
	Discharged  int      `json:"discharged"`
	Inlined     []string `json:"inlined_callees,omitempty"`
	Abstracted  []string `json:"abstracted_callees,omitempty"`
	Assumed     []string `json:"assumed_contracts,omitempty"`
	Warnings    []string `json:"havocked_or_unsupported,omitempty"`
}

func runCheck(o checkOpts) int {
	t0 := time.Now()
	seed := 0
	if s := os.Getenv("VERIF_SEED"); s != "" {
		seed, _ = strconv.Atoi(s)
	}
	evPath := filepath.Join(o.verif, "evidence", o.prop+".json")
	os.MkdirAll(filepath.Dir(evPath), 0o755)
	replayDir := filepath.Join(o.verif, "replays", o.prop)
	os.RemoveAll(replayDir)
	fail := func(msg string) int {
		// cannot generate obligations: reported as a violation without input
		os.MkdirAll(replayDir, 0o755)
		p := filepath.Join(replayDir, "generation.txt")
		os.WriteFile(p, []byte(msg+"\n"), 0o644)
		fmt.Println(msg)
		fmt.Printf("VIOLATION property=%s replay=%s no-failing-input-found\n", o.prop, p)
		writeEvidence(evPath, o, seed, nil, nil, nil, time.Since(t0).Seconds(), 1, []string{msg}, nil)
		return 1
	}
	db, err := loadSpecs(o.repo, o.verif)
	if err != nil {
		return fail("cannot read contract files: " + err.Error())
	}
	if len(db.Errors) > 0 {
		return fail("contract syntax errors:\n" + strings.Join(db.Errors, "\n"))
	}
	// functions of this property
	var sel []*FuncSpec
	pkgSet := map[string]bool{}
	for _, name := range sortedKeys(db.Funcs) {
		sp := db.Funcs[name]
		if !sp.Props[o.prop] {
			continue
		}
		if o.only != "" && !strings.Contains(name, o.only) {
			continue
		}
		sel = append(sel, sp)
		pkgSet[sp.Pkg] = true
	}
	for _, ft := range db.Transitions {
		if ft.Clause.Label == o.prop {
			pkgSet[ft.Pkg] = true
		}
	}
	var lemmas []*Lemma
	for _, lm := range db.Lemmas {
		if lm.Props[o.prop] && (o.only == "" || strings.Contains(lm.Name, o.only)) {
			lemmas = append(lemmas, lm)
			pkgSet[lm.Pkg] = true
		}
	}
	if len(sel) == 0 && len(lemmas) == 0 {
		return fail("no function under contract for property " + o.prop)
	}
	var patterns []string
	for p := range pkgSet {
		patterns = append(patterns, p)
	}
	sort.Strings(patterns)
	l, err := loadProgram(o.repo, patterns)
	if err != nil {
		return fail("cannot load packages: " + err.Error())
	}
	known := loadKnownFindings(filepath.Join(o.verif, "KNOWN_FINDINGS.txt"), o.prop)
	var all []*Obligation
	var runs []*Run
	var genErrors []string
	engs := map[bool]*Eng{}
	for _, sp := range sel {
		km := sp.KeyMode != nil && *sp.KeyMode
		e := engs[km]
		if e == nil {
			e = newEng(l, db, km)
			e.curProp = o.prop
			engs[km] = e
		}
		fn := e.funcIndex[sp.Name]
		if fn == nil {
			genErrors = append(genErrors, fmt.Sprintf("function under contract not found in the code: %s (%s:%d)", sp.Name, sp.File, sp.Line))
			continue
		}
		r := safeVerify(e, fn, sp, &genErrors, known)
		if r == nil {
			continue
		}
		runs = append(runs, r)
		all = append(all, r.obls...)
	}
	// field-transition invariants tagged with this property: every function of the package that stores to the
	// field is checked, annotated or not
	done := map[string]bool{}
	for _, r := range runs {
		done[r.spec.Name] = true
	}
	for _, ft := range db.Transitions {
		if ft.Clause.Label != o.prop {
			continue
		}
		// unannotated writers are checked in the byte-string mode used by the package's contracts
		km := false
		for _, fsp := range db.Funcs {
			if fsp.Pkg == ft.Pkg && fsp.KeyMode != nil && *fsp.KeyMode {
				km = true
			}
		}
		e := engs[km]
		if e == nil {
			e = newEng(l, db, km)
			e.curProp = o.prop
			engs[km] = e
		}
		for _, fn := range e.transitionWriters(ft) {
			if done[fn.String()] || (o.only != "" && !strings.Contains(fn.String(), o.only)) {
				continue
			}
			done[fn.String()] = true
			sp := db.Funcs[fn.String()]
			if sp == nil {
				sp = &FuncSpec{Name: fn.String(), Pkg: ft.Pkg, Loops: map[int]*LoopSpec{}, InlineSet: map[string]bool{}, Opaque: map[string]bool{}, Props: map[string]bool{}, MayPanic: true, KeyMode: &km}
			}
			if r := safeVerify(e, fn, sp, &genErrors, known); r != nil {
				runs = append(runs, r)
				all = append(all, r.obls...)
			}
		}
	}
	for _, lm := range lemmas {
		e := engs[false]
		if e == nil {
			e = newEng(l, db, false)
			engs[false] = e
		}
		func() {
			defer func() {
				if x := recover(); x != nil {
					genErrors = append(genErrors, fmt.Sprintf("lemma %s: generator failed: %v", lm.Name, x))
				}
			}()
			r := e.verifyLemma(lm)
			runs = append(runs, r)
			all = append(all, r.obls...)
		}()
	}
	for _, e := range engs {
		genErrors = append(genErrors, e.specErrors...)
	}
	tmp, err := os.MkdirTemp("", "gocv-")
	if err != nil {
		return fail(err.Error())
	}
	if !o.keep {
		defer os.RemoveAll(tmp)
	} else {
		fmt.Println("SMT files in", tmp)
	}
	workers := runtime.NumCPU() - 2
	if workers < 2 {
		workers = 2
	}
	hintsPath := filepath.Join(o.verif, "cache", "solver_hints_"+o.prop+".json")
	loadSolverHints(hintsPath)
	for _, r := range runs {
		r.modelInputs() // computed up front: the solver workers must not touch the engine's registries
	}
	dischargeAll(all, tmp, o.timeout, workers)

	// report
	violations := 0
	var knownHit []string
	nObl, nDis := 0, 0
	byBackend := map[string][2]float64{}
	var samples []sample
	var vacuity []map[string]string
	solverTime := 0.0
	for _, ob := range all {
		solverTime += ob.Secs
		if ob.isCover {
			vacuity = append(vacuity, map[string]string{"cover": ob.Name, "answer": ob.Result})
			if ob.Result == "unsat" && (ob.mustHold || strings.HasSuffix(ob.Name, ":cover:requires")) {
				violations++
				reportViolation(o, replayDir, ob, "vacuous: "+ob.Text+" (cover query is unsatisfiable)", nil)
			}
			continue
		}
		nObl++
		if ob.Result == "unsat" {
			nDis++
			bb := byBackend[ob.Solver]
			bb[0]++
			bb[1] += ob.Secs
			byBackend[ob.Solver] = bb
			if len(samples) < 6 || (len(samples) < 12 && ob.Kind == "ensures") {
				samples = append(samples, sample{ob.Name, ob.Func, ob.Kind, ob.Text, ob.Result, ob.Solver, ob.Secs, ob.QuerySize})
			}
			continue
		}
		// failed: known finding?
		if kf := known.match(ob); kf != nil && ob.exceptObl != nil {
			discharge(ob.exceptObl, tmp, o.timeout, 9000+nObl)
			solverTime += ob.exceptObl.Secs
			if ob.exceptObl.Result == "unsat" {
				fmt.Printf("KNOWN-FINDING: property=%s %s\n", o.prop, kf.text)
				knownHit = append(knownHit, kf.obligation)
				nDis++ // decided: holds outside the recorded input class
				continue
			}
		}
		violations++
		reportViolation(o, replayDir, ob, "", l)
	}
	if len(genErrors) > 0 {
		os.MkdirAll(replayDir, 0o755)
		p := filepath.Join(replayDir, "generation.txt")
		os.WriteFile(p, []byte(strings.Join(genErrors, "\n")+"\n"), 0o644)
		for _, g := range genErrors {
			fmt.Println("cannot generate:", g)
		}
		fmt.Printf("VIOLATION property=%s replay=%s no-failing-input-found\n", o.prop, p)
		violations++
	}
	if nObl == 0 && violations == 0 {
		return fail("no obligation generated for " + o.prop)
	}
	var frs []funcReport
	for _, r := range runs {
		fr := funcReport{Name: r.spec.Name}
		for _, ob := range r.obls {
			if ob.isCover {
				continue
			}
			fr.Obligations++
			if ob.Result == "unsat" {
				fr.Discharged++
			}
		}
		fr.Inlined = sortedKeys(r.inlined)
		fr.Abstracted = sortedKeys(r.abstracted)
		fr.Assumed = sortedKeys(r.assumed)
		fr.Warnings = r.sortedWarnings()
		frs = append(frs, fr)
	}
	crossConfirmed := 0
	for _, r := range runs {
		for _, ob := range r.obls {
			if len(ob.Confirmed) > 0 {
				crossConfirmed++
			}
			for _, pp := range ob.parts {
				if len(pp.Confirmed) > 0 {
					crossConfirmed++
				}
			}
		}
	}
	extra := map[string]interface{}{
		"cross_checked_by_second_solver": crossConfirmed,
		"functions_under_contract": frs,
		"by_backend":               byBackend,
		"solver_time_s":            solverTime,
		"vacuity":                  vacuity,
		"known_findings_hit":       knownHit,
		"generation_errors":        genErrors,
		"contract_files":           db.Files,
	}
	writeEvidence(evPath, o, seed, samples, []int{nObl, nDis}, extra, time.Since(t0).Seconds(), violations, nil, runs)
	fmt.Printf("%s: %d functions, %d obligations, %d discharged, %d violations, %.1fs (solver %.1fs)\n", o.prop, len(runs), nObl, nDis, violations, time.Since(t0).Seconds(), solverTime)
	if o.verbose {
		for _, ob := range all {
			fmt.Printf("  %-8s %-7s %6.2fs %s\n", ob.Result, ob.Solver, ob.Secs, ob.Name)
		}
		for _, r := range runs {
			for _, w := range r.sortedWarnings() {
				fmt.Println("  warn:", w)
			}
		}
	}
	if os.Getenv("VERIF_WRITE_HINTS") != "" {
		hints := map[string]string{}
		for _, ob := range all {
			if !ob.isCover && ob.Result == "unsat" {
				slow := ob.Solver != "z3-new"
				for _, p := range ob.parts {
					if p.Solver != "z3-new" && p.Result == "unsat" {
						slow = true
						hints[ob.Name] = p.Solver
					}
				}
				if slow && ob.parts == nil {
					hints[ob.Name] = ob.Solver
				}
			}
		}
		os.MkdirAll(filepath.Dir(hintsPath), 0o755)
		data, _ := json.MarshalIndent(hints, "", " ")
		os.WriteFile(hintsPath, data, 0o644)
	}
	if violations > 0 {
		return 1
	}
	return 0
}

func safeVerify(e *Eng, fn *ssa.Function, sp *FuncSpec, genErrors *[]string, known *knownFindings) (r *Run) {
	defer func() {
		if x := recover(); x != nil {
			buf := make([]byte, 4096)
			n := runtime.Stack(buf, false)
			*genErrors = append(*genErrors, fmt.Sprintf("%s: generator failed: %v\n%s", sp.Name, x, buf[:n]))
			r = nil
		}
	}()
	return e.verifyFunc(fn, sp, known)
}

func reportViolation(o checkOpts, dir string, ob *Obligation, note string, l *Loaded) {
	os.MkdirAll(dir, 0o755)
	base := sanitize(ob.Name)
	if len(base) > 150 {
		base = base[:150]
	}
	p := filepath.Join(dir, base+".txt")
	var b strings.Builder
	fmt.Fprintf(&b, "property: %s\nobligation: %s\nkind: %s\nfunction: %s\ncontract: %s\n", o.prop, ob.Name, ob.Kind, ob.Func, ob.Text)
	if note != "" {
		fmt.Fprintf(&b, "note: %s\n", note)
	}
	fmt.Fprintf(&b, "solver: %s\nanswer: %s\nseconds: %.2f\n", ob.Solver, ob.Result, ob.Secs)
	suffix := " no-failing-input-found"
	if ob.Model != "" {
		fmt.Fprintf(&b, "model (inputs):\n")
		mi := ob.run.modelInputs()
		for i, in := range mi {
			fmt.Fprintf(&b, "  %s = %s\n", in.name, modelValue(ob.Model, i, len(mi)))
		}
		if l != nil {
			if rp, ok := tryReplay(o, dir, base, ob); ok {
				p = rp
				suffix = ""
			}
		}
	}
	fmt.Fprintf(&b, "solver output:\n%s\n", truncate(ob.Raw, 6000))
	if suffix != "" {
		os.WriteFile(p, []byte(b.String()), 0o644)
	} else {
		os.WriteFile(strings.TrimSuffix(p, filepath.Ext(p))+".txt", []byte(b.String()), 0o644)
	}
	fmt.Printf("FAILED %s [%s by %s]: %s\n", ob.Name, ob.Result, ob.Solver, ob.Text)
	fmt.Printf("VIOLATION property=%s replay=%s%s\n", o.prop, p, suffix)
}

func truncate(s string, n int) string {
	if len(s) > n {
		return s[:n] + "\n...[truncated]"
	}
	return s
}

// modelValue extracts the i-th value of the (get-value ...) answer.
func modelValue(out string, i, n int) string {
	idx := strings.Index(out, "((")
	if idx < 0 {
		return "?"
	}
	body := out[idx+1:]
	// body is a sequence of (term value) pairs
	k := 0
	for pos := 0; pos < len(body); pos++ {
		if body[pos] == '(' {
			end := matchParen(body, pos)
			if end < 0 {
				break
			}
			if k == i {
				pair := body[pos+1 : end]
				// split term and value
				if sp := firstTopSpace(pair); sp > 0 {
					return strings.TrimSpace(pair[sp:])
				}
				return pair
			}
			k++
			pos = end
		} else if body[pos] == ')' {
			break
		}
	}
	return "?"
}

func firstTopSpace(s string) int {
	d := 0
	for i := 0; i < len(s); i++ {
		switch s[i] {
		case '(':
			d++
		case ')':
			d--
		case ' ', '\n':
			if d == 0 {
				return i
			}
		}
	}
	return -1
}

func writeEvidence(path string, o checkOpts, seed int, samples []sample, counts []int, extra map[string]interface{}, wall float64, violations int, notes []string, runs []*Run) {
	cov := map[string]interface{}{}
	nObl, nDis := 0, 0
	if counts != nil {
		nObl, nDis = counts[0], counts[1]
	}
	cov["obligations"] = nObl
	cov["discharged"] = nDis
	cov["checker_cmd"] = fmt.Sprintf("/verif/bin/gocv check -prop %s -tier %s  (VC generation from /repo's SSA, discharged by z3-new 5.1.0 | z3 4.8.12 | cvc5 1.0)", o.prop, o.tier)
	trusted := []string{
		"gocv itself: go/packages + go/ssa (x/tools v0.29.0) to SMT translation, component-heap memory model (DESIGN §3.3)",
		"SMT solvers z3 5.1.0, z3 4.8.12, cvc5 1.0.x",
		"inferred mod-sets: calls leaving the module or through interfaces/closures write no modelled heap component unless a contract says so",
		"append returns a fresh array (no aliasing with the source slice); pointer-to-scalar parameters do not alias struct fields",
		"sequential reasoning: no interference by other goroutines during a call except where a contract states a rely condition",
		"signed int/int64 +,-,* treated as mathematical (no overflow wrap); unsigned arithmetic and all conversions wrap as in Go",
		"failpoints disabled (util.EvalFailpoint returns an error)",
		"functions marked `bytes: key`: a []byte is a point of a total order (\"\" least, bytes.Compare the order, kv.NextKey the successor) with concatenation, suffix and prefix-successor axioms - facts of byte strings under the lexicographic order, assumed, not proved",
	}
	assumedSet := map[string]bool{}
	for _, r := range runs {
		for k := range r.assumed {
			assumedSet[k] = true
		}
		if r.spec != nil && r.spec.HasMod && !r.spec.Trusted {
			trusted = append(trusted, "declared frame (modifies clause) of "+r.spec.Name+" is not checked against its body")
		}
	}
	for _, k := range sortedKeys(assumedSet) {
		if strings.HasPrefix(k, "native:") {
			trusted = append(trusted, "built-in model of "+strings.TrimPrefix(k, "native:"))
		} else if strings.HasPrefix(k, "axiom:") {
			trusted = append(trusted, "axiom "+strings.TrimPrefix(k, "axiom:"))
		}
	}
	cov["trusted_base"] = trusted
	var ss []interface{}
	for _, s := range samples {
		ss = append(ss, s)
	}
	if len(ss) == 0 {
		ss = append(ss, map[string]string{"note": "no obligation was generated or discharged in this run"})
	}
	cov["samples"] = ss
	for k, v := range extra {
		cov[k] = v
	}
	if len(notes) > 0 {
		cov["notes"] = notes
	}
	assumptions := []string{}
	for _, k := range sortedKeys(assumedSet) {
		if !strings.HasPrefix(k, "native:") && !strings.HasPrefix(k, "axiom:") {
			assumptions = append(assumptions, "callee used through its contract only: "+k)
		}
	}
	ev := map[string]interface{}{
		"property_id": o.prop,
		"tier":        o.tier,
		"seed":        seed,
		"level":       "proof",
		"coverage":    cov,
		"assumptions": assumptions,
		"wall_s":      wall,
		"violations":  violations,
	}
	data, _ := json.MarshalIndent(ev, "", " ")
	os.WriteFile(path, data, 0o644)
}
