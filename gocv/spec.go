package main

// Contract files: comment-only Go files (zz_contracts_verif.go, build tag verif) whose `//@` lines carry
// Gobra-flavoured clauses. See DESIGN §4.

import (
	"fmt"
	"go/ast"
	"go/parser"
	"os"
	"path/filepath"
	"regexp"
	"strconv"
	"strings"
)

type Clause struct {
	Kind  string // requires, ensures, invariant, assert, ...
	Label string
	Text  string
	Expr  *SExpr
	Line  int
	File  string
	// Assumed: a "postulate" - a postcondition that callers may use but that is NOT checked against the function's body
	// (the part of an otherwise verified function's contract that defines ghost/uninterpreted notions); reported as an assumption
	Assumed bool
}

type LoopSpec struct {
	Invariants []*Clause
	Steps      []*Clause // two-state relations between the loop head (prev) and the end of one iteration; checked on every back edge
	Decreases  *Clause
	Unroll     int
	Peel       int // execute the first Peel iterations explicitly, then cut at the invariant
}

type SiteSpec struct {
	Kind    string // call, def, send, iter
	Callee  string
	Ordinal int // 0 = every matching site
	Clause  *Clause
	ArgName string  // call(f:x): only calls whose first argument is the source variable x
	Given   *Clause // iter: what may be assumed about the callback's arguments (item0, item1, ...)
	matched int
}

type FuncSpec struct {
	Name      string // canonical: pkgpath.Func or pkgpath.(Recv).Func or Outer$1
	Pkg       string
	Requires  []*Clause
	TypeInvs  []*Clause // data invariants over unexported state: assumed at entry and at call sites from other packages, proved at call sites inside the owning package
	Ensures   []*Clause
	Loops     map[int]*LoopSpec
	Sites     []*SiteSpec
	Modifies  []string
	HasMod    bool
	AlsoMods  []string // "modifies-also": ghost or other components written in addition to what the body's computed write set says
	Trusted   bool // assumed contract (external or abstracted): body not verified
	Pure      bool
	MayPanic  bool
	Inline    bool
	Safety    bool
	Replay    string
	KeyMode   *bool
	File      string
	Line      int
	NoVerify  bool
	InlineSet map[string]bool // callees to force-inline
	Opaque    map[string]bool // callees never inlined
	Props     map[string]bool
}

type SpecFunc struct {
	Name   string
	Params []SpecParam
	Ret    string
	Body   *SExpr
	Rec    bool
	Text   string
	Pkg    string
	Uninterpreted bool
}

type SpecParam struct{ Name, Type string }

type GhostField struct {
	Type, Name, GoType string
}

type FieldTransition struct {
	Type, Field string
	Clause      *Clause
	Pkg         string
	KeyMode     *bool
}

type Lemma struct {
	Name     string
	Params   []SpecParam
	Requires []*Clause
	Ensures  []*Clause
	Pkg      string
	Induct   string // induction variable (natural number), optional
	Uses     []string
	Text     string
	Props    map[string]bool
	File     string
	Line     int
}

type Guard struct {
	Type, Field, Mutex, Prop, Pkg string
}

type SpecDB struct {
	Guards      []*Guard
	Funcs       map[string]*FuncSpec // by canonical name
	SpecFuncs   map[string]*SpecFunc // by pkg-qualified and bare name
	Ghosts      []*GhostField
	Transitions []*FieldTransition
	Axioms      []*Clause
	AxiomPkg    map[*Clause]string // the package whose contract file states the axiom
	Lemmas      []*Lemma
	Files       []string
	Errors      []string
}

var clauseKW = map[string]bool{"guarded": true, "typeinv": true, "functype": true, "func": true, "requires": true, "ensures": true, "modifies": true, "modifies-also": true, "postulate": true, "loop": true, "at": true,
	"pure": true, "trusted": true, "inline": true, "may-panic": true, "replay:": true, "spec": true, "ghost": true, "field": true,
	"axiom": true, "lemma": true, "bytes:": true, "safety": true, "noverify": true, "inline-callee": true, "opaque-callee": true, "end": true, "prop": true, "package": true}

func newSpecDB() *SpecDB {
	return &SpecDB{Funcs: map[string]*FuncSpec{}, SpecFuncs: map[string]*SpecFunc{}}
}

var labelRe = regexp.MustCompile(`^([A-Za-z_][A-Za-z0-9_\-]*):\s+`)

func (db *SpecDB) errf(file string, line int, format string, a ...interface{}) {
	db.Errors = append(db.Errors, fmt.Sprintf("%s:%d: %s", file, line, fmt.Sprintf(format, a...)))
}

// LoadFile parses one contract file. pkgPath is the import path of the package it annotates.
func (db *SpecDB) LoadFile(path, pkgPath string) error {
	data, err := os.ReadFile(path)
	if err != nil {
		return err
	}
	db.Files = append(db.Files, path)
	type rawClause struct {
		text string
		line int
	}
	var raws []rawClause
	for i, ln := range strings.Split(string(data), "\n") {
		t := strings.TrimSpace(ln)
		var body string
		switch {
		case strings.HasPrefix(t, "//@"):
			body = t[3:]
		case strings.HasPrefix(t, "// @"):
			body = t[4:]
		default:
			continue
		}
		if idx := strings.Index(body, " //"); idx >= 0 && !strings.Contains(body[idx:], "\"") {
			body = body[:idx]
		}
		body = strings.TrimSpace(body)
		if body == "" {
			continue
		}
		first := strings.Fields(body)[0]
		if clauseKW[first] || len(raws) == 0 {
			raws = append(raws, rawClause{body, i + 1})
		} else {
			raws[len(raws)-1].text += " " + body
		}
	}
	var cur *FuncSpec
	var curLemma *Lemma
	mk := func(kind, text string, line int) *Clause {
		c := &Clause{Kind: kind, Line: line, File: path}
		text = strings.TrimSpace(text)
		if m := labelRe.FindStringSubmatch(text); m != nil {
			c.Label = m[1]
			text = text[len(m[0]):]
		}
		c.Text = text
		e, err := parseSpecExpr(text)
		if err != nil {
			db.errf(path, line, "cannot parse %q: %v", text, err)
			return nil
		}
		c.Expr = e
		return c
	}
	for _, rc := range raws {
		fields := strings.Fields(rc.text)
		kw := fields[0]
		rest := strings.TrimSpace(rc.text[len(kw):])
		switch kw {
		case "func":
			name := canonicalFuncName(pkgPath, rest)
			cur = &FuncSpec{Name: name, Pkg: pkgPath, Loops: map[int]*LoopSpec{}, File: path, Line: rc.line, InlineSet: map[string]bool{}, Opaque: map[string]bool{}, Props: map[string]bool{}}
			curLemma = nil
			if _, dup := db.Funcs[name]; dup {
				db.errf(path, rc.line, "duplicate contract for %s", name)
			}
			db.Funcs[name] = cur
		case "functype":
			// contract of every value of a named function type (applied at dynamic calls through that type)
			name := "functype " + pkgPath + "." + rest
			cur = &FuncSpec{Name: name, Pkg: pkgPath, Loops: map[int]*LoopSpec{}, File: path, Line: rc.line, InlineSet: map[string]bool{}, Opaque: map[string]bool{}, Props: map[string]bool{}, Trusted: true}
			curLemma = nil
			db.Funcs[name] = cur
		case "end":
			cur, curLemma = nil, nil
		case "package":
			pkgPath = rest
		case "prop":
			if curLemma != nil {
				for _, f := range fields[1:] {
					curLemma.Props[f] = true
				}
			} else if cur != nil {
				for _, f := range fields[1:] {
					cur.Props[f] = true
				}
			}
		case "requires", "ensures", "postulate":
			c := mk(kw, rest, rc.line)
			if c == nil {
				continue
			}
			if kw == "postulate" {
				c.Assumed = true
				kw = "ensures"
			}
			if curLemma != nil {
				if kw == "requires" {
					curLemma.Requires = append(curLemma.Requires, c)
				} else {
					curLemma.Ensures = append(curLemma.Ensures, c)
				}
				continue
			}
			if cur == nil {
				db.errf(path, rc.line, "%s outside func", kw)
				continue
			}
			if kw == "requires" {
				cur.Requires = append(cur.Requires, c)
			} else {
				cur.Ensures = append(cur.Ensures, c)
			}
		case "guarded":
			// guarded T.f by MutexField <prop>
			if len(fields) == 5 && fields[2] == "by" {
				tn := strings.SplitN(fields[1], ".", 2)
				if len(tn) == 2 {
					db.Guards = append(db.Guards, &Guard{Type: tn[0], Field: tn[1], Mutex: fields[3], Prop: fields[4], Pkg: pkgPath})
					continue
				}
			}
			db.errf(path, rc.line, "bad guarded clause")
		case "typeinv":
			if cur == nil {
				db.errf(path, rc.line, "typeinv outside func")
				continue
			}
			if c := mk("typeinv", rest, rc.line); c != nil {
				cur.TypeInvs = append(cur.TypeInvs, c)
			}
		case "modifies":
			if cur == nil {
				db.errf(path, rc.line, "modifies outside func")
				continue
			}
			cur.HasMod = true
			for _, m := range strings.Split(rest, ",") {
				if m = strings.TrimSpace(m); m != "" && m != "nothing" {
					cur.Modifies = append(cur.Modifies, m)
				}
			}
		case "modifies-also":
			if cur == nil {
				db.errf(path, rc.line, "modifies-also outside func")
				continue
			}
			for _, m := range strings.Split(rest, ",") {
				if m = strings.TrimSpace(m); m != "" {
					cur.AlsoMods = append(cur.AlsoMods, m)
				}
			}
		case "loop":
			if cur == nil || len(fields) < 3 {
				db.errf(path, rc.line, "bad loop clause")
				continue
			}
			n, err := strconv.Atoi(fields[1])
			if err != nil {
				db.errf(path, rc.line, "bad loop ordinal")
				continue
			}
			ls := cur.Loops[n]
			if ls == nil {
				ls = &LoopSpec{}
				cur.Loops[n] = ls
			}
			sub := fields[2]
			subRest := strings.TrimSpace(strings.SplitN(rc.text, sub, 2)[1])
			switch sub {
			case "invariant":
				if c := mk("invariant", subRest, rc.line); c != nil {
					ls.Invariants = append(ls.Invariants, c)
				}
			case "step":
				if c := mk("step", subRest, rc.line); c != nil {
					ls.Steps = append(ls.Steps, c)
				}
			case "decreases":
				ls.Decreases = mk("decreases", subRest, rc.line)
			case "unroll":
				k, err := strconv.Atoi(subRest)
				if err != nil {
					db.errf(path, rc.line, "bad unroll count")
				}
				ls.Unroll = k
			case "peel":
				k, err := strconv.Atoi(subRest)
				if err != nil {
					db.errf(path, rc.line, "bad peel count")
				}
				ls.Peel = k
			default:
				db.errf(path, rc.line, "unknown loop clause %s", sub)
			}
		case "at":
			// at call(callee[#n]) assert [label:] expr   |  at return assert ...
			if cur == nil {
				db.errf(path, rc.line, "at outside func")
				continue
			}
			if k := strings.Index(rest, " iterate "); k >= 0 {
				// at call(Iter) iterate [label:] INV [given ASSUMPTION]: the callee calls its function argument any number of
				// times; INV holds before, is preserved by each callback invocation, and is all that is known afterwards.
				site := strings.TrimSpace(rest[:k])
				body := rest[k+9:]
				var given *Clause
				if g := strings.Index(body, " given "); g >= 0 {
					given = mk("given", body[g+7:], rc.line)
					body = body[:g]
				}
				c := mk("iterate", body, rc.line)
				if c == nil || !strings.HasPrefix(site, "call(") {
					continue
				}
				cur.Sites = append(cur.Sites, &SiteSpec{Kind: "iter", Callee: site[5 : len(site)-1], Clause: c, Given: given})
				continue
			}
			i := strings.Index(rest, " assert ")
			if i < 0 {
				db.errf(path, rc.line, "at ... needs assert")
				continue
			}
			site := strings.TrimSpace(rest[:i])
			c := mk("assert", rest[i+8:], rc.line)
			if c == nil {
				continue
			}
			ss := &SiteSpec{Clause: c}
			if strings.HasPrefix(site, "call(") && strings.HasSuffix(site, ")") {
				ss.Kind = "call"
				inner := site[5 : len(site)-1]
				if j := strings.LastIndex(inner, "#"); j >= 0 {
					ss.Ordinal, _ = strconv.Atoi(inner[j+1:])
					inner = inner[:j]
				}
				if j := strings.Index(inner, ":"); j >= 0 {
					ss.ArgName = inner[j+1:]
					inner = inner[:j]
				}
				ss.Callee = inner
			} else if strings.HasPrefix(site, "send(") && strings.HasSuffix(site, ")") {
				// at send(ch): where a value is sent on the channel held in variable ch (also as a select case); the value is `sent`
				ss.Kind = "send"
				ss.Callee = site[5 : len(site)-1]
			} else if strings.HasPrefix(site, "def(") && strings.HasSuffix(site, ")") {
				// at def(x): where the local variable x is declared (x := ... / var x)
				ss.Kind = "def"
				ss.Callee = site[4 : len(site)-1]
			} else if site == "return" {
				// at return: every return instruction; result/resultN are the returned values, locals are visible
				ss.Kind = "return"
			} else {
				db.errf(path, rc.line, "unknown site %q", site)
				continue
			}
			cur.Sites = append(cur.Sites, ss)
		case "pure":
			if cur != nil {
				cur.Pure = true
			}
		case "trusted":
			if cur != nil {
				cur.Trusted = true
			}
		case "noverify":
			if cur != nil {
				cur.NoVerify = true
			}
		case "inline":
			if cur != nil {
				cur.Inline = true
			}
		case "inline-callee":
			if cur != nil {
				for _, f := range fields[1:] {
					cur.InlineSet[f] = true
				}
			}
		case "opaque-callee":
			if cur != nil {
				for _, f := range fields[1:] {
					cur.Opaque[f] = true
				}
			}
		case "may-panic":
			if cur != nil {
				cur.MayPanic = true
			}
		case "safety":
			if cur != nil {
				cur.Safety = true
			}
		case "replay:":
			if cur != nil {
				cur.Replay = rest
			}
		case "bytes:":
			if cur != nil {
				b := rest == "key"
				cur.KeyMode = &b
			}
		case "spec":
			// spec [rec] func name(a T, b U) R { return expr }
			sf, err := parseSpecFunc(rest)
			if err != nil {
				db.errf(path, rc.line, "spec func: %v", err)
				continue
			}
			sf.Pkg = pkgPath
			sf.Text = rest
			// a package's own definition wins inside that package; the bare name is what other packages see
			db.SpecFuncs[pkgPath+"."+sf.Name] = sf
			if _, dup := db.SpecFuncs[sf.Name]; !dup {
				db.SpecFuncs[sf.Name] = sf
			}
		case "ghost":
			// ghost field T.name type
			if len(fields) == 4 && fields[1] == "field" {
				tn := strings.SplitN(fields[2], ".", 2)
				if len(tn) == 2 {
					db.Ghosts = append(db.Ghosts, &GhostField{Type: tn[0], Name: tn[1], GoType: fields[3]})
					continue
				}
			}
			db.errf(path, rc.line, "bad ghost declaration")
		case "field":
			// field T.f transition expr
			if len(fields) >= 4 && fields[2] == "transition" {
				tn := strings.SplitN(fields[1], ".", 2)
				if len(tn) == 2 {
					c := mk("transition", strings.TrimSpace(strings.SplitN(rc.text, " transition ", 2)[1]), rc.line)
					if c != nil {
						db.Transitions = append(db.Transitions, &FieldTransition{Type: tn[0], Field: tn[1], Clause: c, Pkg: pkgPath})
					}
					continue
				}
			}
			db.errf(path, rc.line, "bad field transition")
		case "axiom":
			if c := mk("axiom", rest, rc.line); c != nil {
				db.Axioms = append(db.Axioms, c)
				if db.AxiomPkg == nil {
					db.AxiomPkg = map[*Clause]string{}
				}
				db.AxiomPkg[c] = pkgPath
			}
		case "lemma":
			// lemma name(params) [induction n] [uses a, b]
			lm, err := parseLemmaHead(rest)
			if err != nil {
				db.errf(path, rc.line, "lemma: %v", err)
				continue
			}
			lm.Pkg = pkgPath
			lm.Text = rest
			lm.Props = map[string]bool{}
			lm.File, lm.Line = path, rc.line
			db.Lemmas = append(db.Lemmas, lm)
			curLemma = lm
			cur = nil
		default:
			db.errf(path, rc.line, "unknown clause %q", kw)
		}
	}
	return nil
}

// canonicalFuncName turns "(m *T) build", "(T) M", "Name", "Outer$1" into the ssa.Function.String()-like name.
func canonicalFuncName(pkg, s string) string {
	s = strings.TrimSpace(s)
	if strings.HasPrefix(s, "(") {
		i := strings.Index(s, ")")
		recv := strings.TrimSpace(s[1:i])
		name := strings.TrimSpace(s[i+1:])
		parts := strings.Fields(recv)
		rt := parts[len(parts)-1]
		ptr := strings.HasPrefix(rt, "*")
		rt = strings.TrimPrefix(rt, "*")
		if ptr {
			return fmt.Sprintf("(*%s.%s).%s", pkg, rt, name)
		}
		return fmt.Sprintf("(%s.%s).%s", pkg, rt, name)
	}
	if strings.Contains(s, "/") || strings.HasPrefix(s, "(") {
		return s // already qualified (external)
	}
	return pkg + "." + s
}

func parseParams(s string) ([]SpecParam, error) {
	var ps []SpecParam
	s = strings.TrimSpace(s)
	if s == "" {
		return nil, nil
	}
	var pendings []string
	for _, p := range strings.Split(s, ",") {
		f := strings.Fields(p)
		switch len(f) {
		case 1:
			pendings = append(pendings, f[0])
		case 2:
			for _, n := range pendings {
				ps = append(ps, SpecParam{n, f[1]})
			}
			pendings = nil
			ps = append(ps, SpecParam{f[0], f[1]})
		default:
			return nil, fmt.Errorf("bad parameter %q", p)
		}
	}
	if len(pendings) > 0 {
		return nil, fmt.Errorf("parameter without type")
	}
	return ps, nil
}

func parseSpecFunc(s string) (*SpecFunc, error) {
	sf := &SpecFunc{}
	if strings.HasPrefix(s, "rec ") {
		sf.Rec = true
		s = strings.TrimSpace(s[4:])
	}
	if !strings.HasPrefix(s, "func ") {
		return nil, fmt.Errorf("expected func")
	}
	s = s[5:]
	i := strings.Index(s, "(")
	j := matchParen(s, i)
	if i < 0 || j < 0 {
		return nil, fmt.Errorf("bad signature")
	}
	sf.Name = strings.TrimSpace(s[:i])
	ps, err := parseParams(s[i+1 : j])
	if err != nil {
		return nil, err
	}
	sf.Params = ps
	rest := strings.TrimSpace(s[j+1:])
	b := strings.Index(rest, "{")
	if b < 0 {
		sf.Ret = rest
		sf.Uninterpreted = true
		return sf, nil
	}
	if !strings.HasSuffix(rest, "}") {
		return nil, fmt.Errorf("missing body")
	}
	sf.Ret = strings.TrimSpace(rest[:b])
	body := strings.TrimSpace(rest[b+1 : len(rest)-1])
	body = strings.TrimPrefix(body, "return ")
	e, err := parseSpecExpr(body)
	if err != nil {
		return nil, err
	}
	sf.Body = e
	return sf, nil
}

func parseLemmaHead(s string) (*Lemma, error) {
	i := strings.Index(s, "(")
	j := matchParen(s, i)
	if i < 0 || j < 0 {
		return nil, fmt.Errorf("bad lemma head")
	}
	lm := &Lemma{Name: strings.TrimSpace(s[:i])}
	ps, err := parseParams(s[i+1 : j])
	if err != nil {
		return nil, err
	}
	lm.Params = ps
	f := strings.Fields(s[j+1:])
	for k := 0; k < len(f); k++ {
		switch f[k] {
		case "induction":
			if k+1 < len(f) {
				lm.Induct = f[k+1]
				k++
			}
		case "uses":
			for k+1 < len(f) {
				k++
				lm.Uses = append(lm.Uses, strings.Trim(f[k], ","))
			}
		}
	}
	return lm, nil
}

func matchParen(s string, i int) int {
	if i < 0 || i >= len(s) {
		return -1
	}
	open, close := s[i], byte(')')
	switch open {
	case '[':
		close = ']'
	case '{':
		close = '}'
	}
	d := 0
	inStr := false
	for k := i; k < len(s); k++ {
		c := s[k]
		if inStr {
			if c == '\\' {
				k++
			} else if c == '"' {
				inStr = false
			}
			continue
		}
		switch c {
		case '"':
			inStr = true
		case open:
			d++
		case close:
			d--
			if d == 0 {
				return k
			}
		}
	}
	return -1
}

// ---------------------------------------------------------------------------------------------
// Spec expressions: Go expressions extended with ==>, <==>, forall/exists x T :: P

type SExpr struct {
	Op    string // "go", "imp", "iff", "forall", "exists"
	Go    ast.Expr
	L, R  *SExpr
	Vars  []SpecParam
	Body  *SExpr
	Holes map[string]*SExpr // placeholders inside Go
	Trig  []*SExpr
}

func splitTop(s, op string) (string, string, bool) {
	d := 0
	inStr := false
	for i := 0; i+len(op) <= len(s); i++ {
		c := s[i]
		if inStr {
			if c == '\\' {
				i++
			} else if c == '"' {
				inStr = false
			}
			continue
		}
		switch c {
		case '"':
			inStr = true
		case '(', '[', '{':
			d++
		case ')', ']', '}':
			d--
		}
		if d == 0 && s[i:i+len(op)] == op {
			if op == "==>" && i > 0 && s[i-1] == '<' {
				continue
			}
			return s[:i], s[i+len(op):], true
		}
	}
	return "", "", false
}

var quantRe = regexp.MustCompile(`^(forall|exists)\s+`)
var identRe = regexp.MustCompile(`^[A-Za-z_][A-Za-z0-9_]*$`)

func parseSpecExpr(s string) (*SExpr, error) {
	s = strings.TrimSpace(s)
	if s == "" {
		return nil, fmt.Errorf("empty expression")
	}
	// a quantifier that is not at the start extends to the end of the expression: wrap it in parentheses
	{
		d := 0
		inStr := false
		for i := 0; i < len(s); i++ {
			c := s[i]
			if inStr {
				if c == '\\' {
					i++
				} else if c == '"' {
					inStr = false
				}
				continue
			}
			switch c {
			case '"':
				inStr = true
			case '(', '[', '{':
				d++
			case ')', ']', '}':
				d--
			}
			if i > 0 && d == 0 && (strings.HasPrefix(s[i:], "forall ") || strings.HasPrefix(s[i:], "exists ")) && !isIdentChar(s[i-1]) {
				s = s[:i] + "(" + s[i:] + ")"
				break
			}
		}
	}
	// quantifier at top: body extends as far as possible
	if m := quantRe.FindString(s); m != "" {
		rest := s[len(m):]
		vs, body, ok := splitTop(rest, "::")
		if !ok {
			return nil, fmt.Errorf("quantifier without ::")
		}
		ps, err := parseParams(vs)
		if err != nil {
			return nil, err
		}
		b, err := parseSpecExpr(body)
		if err != nil {
			return nil, err
		}
		return &SExpr{Op: strings.TrimSpace(m), Vars: ps, Body: b}, nil
	}
	if l, r, ok := splitTop(s, "<==>"); ok {
		le, err := parseSpecExpr(l)
		if err != nil {
			return nil, err
		}
		re, err := parseSpecExpr(r)
		if err != nil {
			return nil, err
		}
		return &SExpr{Op: "iff", L: le, R: re}, nil
	}
	if l, r, ok := splitTop(s, "==>"); ok {
		le, err := parseSpecExpr(l)
		if err != nil {
			return nil, err
		}
		re, err := parseSpecExpr(r) // right associative
		if err != nil {
			return nil, err
		}
		return &SExpr{Op: "imp", L: le, R: re}, nil
	}
	// replace parenthesised groups that contain spec-only syntax by placeholders
	holes := map[string]*SExpr{}
	var out strings.Builder
	inStr := false
	for i := 0; i < len(s); i++ {
		c := s[i]
		if inStr {
			out.WriteByte(c)
			if c == '\\' && i+1 < len(s) {
				i++
				out.WriteByte(s[i])
			} else if c == '"' {
				inStr = false
			}
			continue
		}
		if c == '"' {
			inStr = true
			out.WriteByte(c)
			continue
		}
		if c == '(' {
			j := matchParen(s, i)
			if j < 0 {
				return nil, fmt.Errorf("unbalanced parenthesis")
			}
			inner := s[i+1 : j]
			if strings.Contains(inner, "==>") || strings.Contains(inner, "::") {
				// Is this a call argument list? then split on top-level commas.
				isCall := i > 0 && (isIdentChar(s[i-1]) || s[i-1] == ')' || s[i-1] == ']')
				if isCall {
					out.WriteByte('(')
					args := splitArgs(inner)
					for k, a := range args {
						if k > 0 {
							out.WriteString(", ")
						}
						if strings.Contains(a, "==>") || strings.Contains(a, "::") {
							h, err := parseSpecExpr(a)
							if err != nil {
								return nil, err
							}
							name := fmt.Sprintf("hole__%d", len(holes))
							holes[name] = h
							out.WriteString(name)
						} else {
							sub, err := parseSpecExpr(a)
							if err != nil {
								return nil, err
							}
							if sub.Op == "go" && len(sub.Holes) == 0 {
								out.WriteString(a)
							} else {
								name := fmt.Sprintf("hole__%d", len(holes))
								holes[name] = sub
								out.WriteString(name)
							}
						}
					}
					out.WriteByte(')')
				} else {
					h, err := parseSpecExpr(inner)
					if err != nil {
						return nil, err
					}
					name := fmt.Sprintf("hole__%d", len(holes))
					holes[name] = h
					out.WriteString(name)
				}
				i = j
				continue
			}
		}
		out.WriteByte(c)
	}
	src := out.String()
	e, err := parser.ParseExpr(src)
	if err != nil {
		return nil, fmt.Errorf("%v in %q", err, src)
	}
	return &SExpr{Op: "go", Go: e, Holes: holes}, nil
}

func isIdentChar(c byte) bool {
	return c == '_' || (c >= 'a' && c <= 'z') || (c >= 'A' && c <= 'Z') || (c >= '0' && c <= '9')
}

func splitArgs(s string) []string {
	var out []string
	d := 0
	last := 0
	inStr := false
	for i := 0; i < len(s); i++ {
		c := s[i]
		if inStr {
			if c == '\\' {
				i++
			} else if c == '"' {
				inStr = false
			}
			continue
		}
		switch c {
		case '"':
			inStr = true
		case '(', '[', '{':
			d++
		case ')', ']', '}':
			d--
		case ',':
			if d == 0 {
				out = append(out, strings.TrimSpace(s[last:i]))
				last = i + 1
			}
		}
	}
	out = append(out, strings.TrimSpace(s[last:]))
	return out
}

// findContractFiles lists zz_contracts_verif.go files under root with their package import paths.
func findContractFiles(root, modPath string) (map[string]string, error) {
	out := map[string]string{}
	err := filepath.Walk(root, func(p string, info os.FileInfo, err error) error {
		if err != nil {
			return nil
		}
		if info.IsDir() && (info.Name() == ".git" || info.Name() == "integration_tests") {
			return filepath.SkipDir
		}
		if !info.IsDir() && info.Name() == "zz_contracts_verif.go" {
			rel, _ := filepath.Rel(root, filepath.Dir(p))
			ip := modPath
			if rel != "." {
				ip = modPath + "/" + filepath.ToSlash(rel)
			}
			out[p] = ip
		}
		return nil
	})
	return out, err
}
