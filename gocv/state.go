package main

import (
	"fmt"
	"go/types"
	"sort"
	"strings"

	"golang.org/x/tools/go/ssa"
)

// Val is a symbolic value bound to an SSA value:
//   TV        an SMT term
//   *Addr     the address of a non-aggregate memory location
//   Tuple     multiple results
//   *Closure  a function value whose code is known
type Val interface{}

type Tuple []Val

// OneSided: a source variable that is in scope on only some of the merged paths (cond tells when its value is tv).
type OneSided struct {
	cond string
	tv   TV
}

func (r *Run) materialize(o *OneSided) TV {
	other := r.declare("oos", o.tv.Sort)
	return TV{r.define("m", o.tv.Sort, ite(o.cond, o.tv.S, other)), o.tv.Sort, o.tv.T}
}

type Closure struct {
	fn    *ssa.Function
	binds []Val
	ref   string // identity term
}

const (
	aField = iota
	aElem
	aCell
	aGlobal
)

type Addr struct {
	kind  int
	base  string // object reference (struct ref / array ref / cell ref)
	idx   string // aElem: absolute index in the array object
	si    *structInfo
	field int
	typ   types.Type // pointee type
	name  string     // aGlobal: heap name
	glob  *ssa.Global
}

type deferEntry struct {
	instr *ssa.Defer
	args  []Val
	fnv   Val
	guard string
	order int
}

type State struct {
	reach    string
	env      map[ssa.Value]Val
	heaps    map[string]string
	vars     map[string]Val
	frontier string
	defers   []deferEntry
	dead     bool
	// eqFacts: term -> numeral it is known to equal on this path (from taken `x == const` branches of switches);
	// used only to skip proof goals whose guard names a different constant (an optimisation, never an assumption)
	eqFacts map[string]string
}

func (s *State) clone() *State {
	n := &State{reach: s.reach, frontier: s.frontier, dead: s.dead}
	if len(s.eqFacts) > 0 {
		n.eqFacts = make(map[string]string, len(s.eqFacts))
		for k, v := range s.eqFacts {
			n.eqFacts[k] = v
		}
	}
	n.env = make(map[ssa.Value]Val, len(s.env)+8)
	for k, v := range s.env {
		n.env[k] = v
	}
	n.heaps = make(map[string]string, len(s.heaps))
	for k, v := range s.heaps {
		n.heaps[k] = v
	}
	n.vars = make(map[string]Val, len(s.vars))
	for k, v := range s.vars {
		n.vars[k] = v
	}
	n.defers = append([]deferEntry(nil), s.defers...)
	return n
}

// Obligation is one named proof goal: the script prefix up to prefixLen, plus (assert (not goal)).
type Obligation struct {
	Name      string
	Kind      string
	Func      string
	Text      string // contract text
	prefixLen int
	goal      string
	isCover   bool // satisfiability expected (vacuity guard)
	coverPre  *Obligation // cover of the state before (to tell a dead path from an inconsistent contract)
	mustHold  bool        // an unsat answer is a failure (unless coverPre is unsat too)
	run       *Run
	Result    string
	Solver    string
	Secs      float64
	Model     string
	QuerySize int
	Raw       string
	replay    *replayInfo
	exceptObl *Obligation
	clause    *Clause
	ModelWeak bool // model found after dropping background axioms (candidate only)
	Confirmed []string // thorough tier: the other solvers that also proved the obligation
	Retried    bool
	failedPart *Obligation
	parts     []*Obligation // when set: the obligation holds iff every part does (one part per return path)
}

// Run is the verification of one function under contract.
type Run struct {
	defs       map[string]string // name -> defining term of define-fun'ed constants
	eng        *Eng
	top        *ssa.Function
	spec       *FuncSpec
	script     []string
	nconst     int
	obls       []*Obligation
	heapSort   map[string]string
	heapInit   map[string]string
	warnings   map[string]bool
	abstracted map[string]bool
	inlined    map[string]bool
	assumed    map[string]bool
	entry      *State
	entryBinds map[string]Val
	inputs     []inputVar // named symbolic inputs for model projection
	modelIn    []inputVar
	inlineMode int
	oblNames   map[string]int
	ghostUF    map[string]bool
}

type inputVar struct {
	name string
	tv   TV
}

func (r *Run) warn(format string, a ...interface{}) {
	r.warnings[fmt.Sprintf(format, a...)] = true
}

func (r *Run) emit(cmd string) {
	if r.inlineMode > 0 && strings.HasPrefix(cmd, "(assert") {
		return // evaluating a pure call under a quantifier: nothing may be asserted about terms with bound variables
	}
	r.script = append(r.script, cmd)
}

func (r *Run) fresh(prefix string) string {
	r.nconst++
	return fmt.Sprintf("%s!%d", sanitize(prefix), r.nconst)
}

// declare introduces a fresh constant.
func (r *Run) declare(prefix, sort string) string {
	n := r.fresh(prefix)
	r.emit(fmt.Sprintf("(declare-const %s %s)", n, sort))
	return n
}

// define introduces a named constant equal to expr (keeps formulas linear in program size).
func (r *Run) define(prefix, sort, expr string) string {
	if !strings.HasPrefix(expr, "(") {
		return expr // already atomic
	}
	if r.inlineMode > 0 {
		return expr // terms with bound variables cannot be named outside their quantifier
	}
	if strings.HasPrefix(expr, "(ite ") {
		// merged values appear inside quantifier patterns: they must be constants, not macros
		return r.constOf(prefix, sort, expr)
	}
	n := r.fresh(prefix)
	if r.defs == nil {
		r.defs = map[string]string{}
	}
	r.defs[n] = expr
	r.emit(fmt.Sprintf("(define-fun %s () %s %s)", n, sort, expr))
	return n
}

// constOf introduces a declared constant equal to expr (unlike define, usable inside quantifier patterns).
func (r *Run) constOf(prefix, sort, expr string) string {
	if r.inlineMode > 0 {
		return expr
	}
	n := r.declare(prefix, sort)
	r.emit(app("assert", eq(n, expr)))
	return n
}

func (r *Run) assume(st *State, f string) {
	if f == "true" {
		return
	}
	r.emit(app("assert", implies(st.reach, f)))
}

func (r *Run) assumeGlobal(f string) {
	if f == "true" {
		return
	}
	r.emit(app("assert", f))
}

// assumeBG: engine-generated background fact (well-formedness, library axioms). Left out of queries whose
// expected answer is "sat" (vacuity covers, counterexample search), where quantifiers only slow model finding.
func (r *Run) assumeBG(f string) {
	if f == "true" {
		return
	}
	r.emit(app("assert", f) + " ;bg")
}

// assumeBGIn: background fact that only matters on the paths through st.
func (r *Run) assumeBGIn(st *State, f string) {
	r.emit(app("assert", implies(st.reach, f)) + " ;bg")
}

func (r *Run) oblName(base string) string {
	r.oblNames[base]++
	if n := r.oblNames[base]; n > 1 {
		return fmt.Sprintf("%s#%d", base, n)
	}
	return base
}

func (r *Run) oblige(st *State, kind, label, text, goal string) *Obligation {
	o := &Obligation{Name: r.oblName(r.spec.Name + ":" + kind + ":" + label), Kind: kind, Func: r.spec.Name, Text: text,
		prefixLen: len(r.script), goal: implies(st.reach, goal), run: r}
	r.obls = append(r.obls, o)
	return o
}

func (r *Run) cover(st *State, kind, label, text, cond string) {
	o := &Obligation{Name: r.oblName(r.spec.Name + ":" + kind + ":" + label), Kind: kind, Func: r.spec.Name, Text: text,
		prefixLen: len(r.script), goal: and(st.reach, cond), isCover: true, run: r}
	r.obls = append(r.obls, o)
}

// ---------------------------------------------------------------------------------------------
// type invariants

func (r *Run) typeInv(x string, t types.Type, st *State) string {
	if t == nil {
		return "true"
	}
	s := r.eng.sorts
	switch u := t.Underlying().(type) {
	case *types.Basic:
		if lo, hi, ok := intRange(t); ok {
			return and(app("<=", bigNum(lo), x), app("<=", x, bigNum(hi)))
		}
		if u.Info()&types.IsString != 0 {
			return app(">=", x, "0")
		}
		if u.Kind() == types.UnsafePointer {
			return app("<", x, st.frontier)
		}
	case *types.Pointer:
		if isAggregate(u.Elem()) {
			// the object (or the object it is part of) exists
			return and(app("<", x, st.frontier), app("<=", "0", app("refbase", x)), app("<", app("refbase", x), st.frontier))
		}
		return and(app("<=", "0", x), app("<", x, st.frontier))
	case *types.Map, *types.Chan, *types.Signature:
		return and(app("<=", "0", x), app("<", x, st.frontier))
	case *types.Slice:
		if s.keyMode && isByteSlice(t) {
			return app(">=", x, "0")
		}
		return and(app("<=", "0", app("s_arr", x)), app("<", app("s_arr", x), st.frontier),
			app("<=", "0", app("s_off", x)), app("<=", "0", app("s_len", x)), app("<=", app("s_len", x), app("s_cap", x)),
			implies(eq(app("s_arr", x), "0"), and(eq(app("s_cap", x), "0"), eq(app("s_off", x), "0"))))
	case *types.Interface:
		return and(app("<=", "0", app("i_tag", x)), app("<", app("i_val", x), st.frontier),
			implies(eq(app("i_tag", x), "0"), eq(app("i_val", x), "0")))
	case *types.Struct:
		si := s.structOf(t)
		var cs []string
		for i := 0; i < u.NumFields(); i++ {
			cs = append(cs, r.typeInv(app(si.fields[i], x), u.Field(i).Type(), st))
		}
		return and(cs...)
	}
	return "true"
}

func (r *Run) freshOf(st *State, prefix string, t types.Type) TV {
	sort := r.eng.sorts.sortOf(t)
	n := r.declare(prefix, sort)
	r.assumeGlobal(r.typeInv(n, t, st))
	return TV{n, sort, t}
}

func (r *Run) zero(t types.Type) TV {
	s := r.eng.sorts
	sort := s.sortOf(t)
	switch u := t.Underlying().(type) {
	case *types.Basic:
		if sort == SBool {
			return TV{"false", sort, t}
		}
		if sort == SReal {
			return TV{"0.0", sort, t}
		}
		return TV{"0", sort, t}
	case *types.Slice:
		if sort == SInt {
			return TV{"0", sort, t}
		}
		return TV{"(mk_slice 0 0 0 0)", sort, t}
	case *types.Interface:
		return TV{"(mk_iface 0 0)", sort, t}
	case *types.Struct:
		si := s.structOf(t)
		if u.NumFields() == 0 {
			return TV{"mk_" + si.name, sort, t}
		}
		var fs []string
		for i := 0; i < u.NumFields(); i++ {
			fs = append(fs, r.zero(u.Field(i).Type()).S)
		}
		return TV{app("mk_"+si.name, fs...), sort, t}
	case *types.Array:
		return TV{fmt.Sprintf("((as const %s) %s)", sort, r.zero(u.Elem()).S), sort, t}
	}
	return TV{"0", sort, t}
}

// ---------------------------------------------------------------------------------------------
// heaps

func (r *Run) heapGet(st *State, name string) string {
	if h, ok := st.heaps[name]; ok {
		return h
	}
	return r.heapDeclare(name)
}

// heapDeclare makes sure the initial version of heap component name exists.
func (r *Run) heapDeclare(name string) string {
	if h, ok := r.heapInit[name]; ok {
		return h
	}
	sort, ok := r.eng.heapSorts[name]
	if !ok {
		panic("heap without registered sort: " + name)
	}
	h := name + "!0"
	r.heapSort[name] = sort
	r.heapInit[name] = h
	r.emit(fmt.Sprintf("(declare-const %s %s)", h, sort))
	r.heapWF(h, sort, r.eng.heapElemType[name], r.entry.frontier)
	return h
}

// heapWF assumes that every reference stored in heap component h is below the allocation frontier.
func (r *Run) heapWF(h, sort string, elemT types.Type, frontier string) {
	if elemT == nil {
		return
	}
	fst := &State{frontier: frontier}
	switch {
	case strings.HasPrefix(sort, "(Array Int (Array "):
		// element heaps (index sort Int) and map value heaps (index sort = the key sort)
		isort := "Int"
		if rest := strings.TrimPrefix(sort, "(Array Int (Array "); !strings.HasPrefix(rest, "Int ") {
			isort = firstSort(rest)
		}
		inv := r.typeInvRefOnly(app("select", app("select", h, "x"), "i"), elemT, fst)
		if inv != "true" {
			r.assumeBG(fmt.Sprintf("(forall ((x Int) (i %s)) (! (=> (and (<= 0 (refbase x)) (< (refbase x) %s)) %s) :pattern ((select (select %s x) i))))", isort, frontier, inv, h))
		}
	case strings.HasPrefix(sort, "(Array Int "):
		inv := r.typeInvRefOnly(app("select", h, "x"), elemT, fst)
		if inv != "true" {
			// only objects that exist (0 <= x < frontier) are constrained: the contents of unallocated references stay arbitrary
			// (stores into objects a callee allocates are not part of its mod-set and show up there)
			r.assumeBG(fmt.Sprintf("(forall ((x Int)) (! (=> (and (<= 0 (refbase x)) (< (refbase x) %s)) %s) :pattern ((select %s x))))", frontier, inv, h))
		}
	default:
		r.assumeGlobal(r.typeInvRefOnly(h, elemT, fst))
	}
}

// typeInvRefOnly keeps only the cheap parts of the type invariant that matter for framing and
// arithmetic: reference bounds, slice well-formedness and integer ranges.
func (r *Run) typeInvRefOnly(x string, t types.Type, st *State) string {
	switch u := t.Underlying().(type) {
	case *types.Struct:
		// a struct value (map element, by-value field): the references it carries
		si := r.eng.sorts.structOf(t)
		var cs []string
		for i := 0; i < u.NumFields(); i++ {
			if c := r.typeInvRefOnly(app(si.fields[i], x), u.Field(i).Type(), st); c != "true" {
				cs = append(cs, c)
			}
		}
		if len(cs) == 0 {
			return "true"
		}
		return and(cs...)
	case *types.Array:
		return "true"
	case *types.Basic:
		// integer ranges are asserted on the individual values that are read (loads, contract reads):
		// a quantified range axiom per heap version makes E-matching explode together with array stores
		return "true"
	}
	return r.typeInv(x, t, st)
}

func (r *Run) heapSet(st *State, name, val string) {
	st.heaps[name] = r.define(name, r.heapSort[name], val)
}

func (r *Run) heapHavoc(st *State, name string) {
	r.heapDeclare(name)
	sort := r.heapSort[name]
	h := r.declare(name, sort)
	st.heaps[name] = h
	r.heapWF(h, sort, r.eng.heapElemType[name], st.frontier)
}

func (e *Eng) regHeap(n, sort string, t types.Type) string {
	if _, ok := e.heapSorts[n]; !ok {
		e.heapSorts[n] = sort
		e.heapElemType[n] = t
	}
	return n
}

func (e *Eng) fieldHeapName(si *structInfo, i int) string {
	ft := si.st.Field(i).Type()
	return e.regHeap(fmt.Sprintf("H_%s_%s", si.tname, sanitize(si.st.Field(i).Name())), "(Array Int "+e.sorts.sortOf(ft)+")", ft)
}

func (e *Eng) elemHeapName(t types.Type) string {
	return e.regHeap("E_"+shortTypeName(t), "(Array Int (Array Int "+e.sorts.sortOf(t)+"))", t)
}

func (e *Eng) cellHeapName(t types.Type) string {
	return e.regHeap("C_"+shortTypeName(t), "(Array Int "+e.sorts.sortOf(t)+")", t)
}

func (e *Eng) globalHeapName(name string, t types.Type) string {
	return e.regHeap(name, e.sorts.sortOf(t), t)
}

func (r *Run) fieldHeap(st *State, si *structInfo, i int) (string, string) {
	name := r.eng.fieldHeapName(si, i)
	return name, r.heapGet(st, name)
}

func (r *Run) elemHeap(st *State, t types.Type) (string, string) {
	name := r.eng.elemHeapName(t)
	return name, r.heapGet(st, name)
}

func (r *Run) cellHeap(st *State, t types.Type) (string, string) {
	name := r.eng.cellHeapName(t)
	return name, r.heapGet(st, name)
}

// loadAt reads a value of Go type t from the object/cell referenced by ref.
func (r *Run) loadAt(st *State, ref string, t types.Type) TV {
	s := r.eng.sorts
	switch u := t.Underlying().(type) {
	case *types.Struct:
		si := s.structOf(t)
		if u.NumFields() == 0 {
			return TV{"mk_" + si.name, si.name, t}
		}
		var fs []string
		for i := 0; i < u.NumFields(); i++ {
			fs = append(fs, r.loadField(st, ref, si, i).S)
		}
		return TV{app("mk_"+si.name, fs...), si.name, t}
	case *types.Array:
		if isAggregate(u.Elem()) {
			r.warn("load of array-of-aggregates value (%s) havocked", t)
			return r.freshOf(st, "arrval", t)
		}
		_, h := r.elemHeap(st, u.Elem())
		return TV{app("select", h, ref), s.sortOf(t), t}
	}
	_, h := r.cellHeap(st, t)
	return TV{app("select", h, ref), s.sortOf(t), t}
}

func (r *Run) loadField(st *State, ref string, si *structInfo, i int) TV {
	ft := si.st.Field(i).Type()
	if isAggregate(ft) {
		return r.loadAt(st, app(r.eng.sorts.subFunc(si, i), ref), ft)
	}
	_, h := r.fieldHeap(st, si, i)
	return TV{app("select", h, ref), r.eng.sorts.sortOf(ft), ft}
}

func (r *Run) storeAt(st *State, ref string, t types.Type, v TV) {
	s := r.eng.sorts
	switch u := t.Underlying().(type) {
	case *types.Struct:
		si := s.structOf(t)
		vs := v.S
		if u.NumFields() > 1 {
			vs = r.define("sv", si.name, v.S)
		}
		for i := 0; i < u.NumFields(); i++ {
			ft := u.Field(i).Type()
			r.storeField(st, ref, si, i, TV{app(si.fields[i], vs), s.sortOf(ft), ft})
		}
		return
	case *types.Array:
		if isAggregate(u.Elem()) {
			r.warn("store of array-of-aggregates value (%s) ignored", t)
			return
		}
		name, h := r.elemHeap(st, u.Elem())
		r.heapSet(st, name, app("store", h, ref, v.S))
		return
	}
	name, h := r.cellHeap(st, t)
	r.heapSet(st, name, app("store", h, ref, v.S))
}

func (r *Run) storeField(st *State, ref string, si *structInfo, i int, v TV) {
	ft := si.st.Field(i).Type()
	if isAggregate(ft) {
		r.storeAt(st, app(r.eng.sorts.subFunc(si, i), ref), ft, v)
		return
	}
	name, h := r.fieldHeap(st, si, i)
	r.heapSet(st, name, app("store", h, ref, v.S))
}

func (r *Run) load(st *State, a *Addr) TV {
	s := r.eng.sorts
	switch a.kind {
	case aField:
		return r.loadField(st, a.base, a.si, a.field)
	case aElem:
		_, h := r.elemHeap(st, a.typ)
		return TV{app("select", app("select", h, a.base), a.idx), s.sortOf(a.typ), a.typ}
	case aCell:
		return r.loadAt(st, a.base, a.typ)
	case aGlobal:
		sort := s.sortOf(a.typ)
		r.eng.globalHeapName(a.name, a.typ)
		_, declared := r.heapInit[a.name]
		h := r.heapGet(st, a.name)
		if !declared && a.glob != nil {
			if gf := r.eng.globalFactOf(a.glob); gf.immutable {
				init := r.heapInit[a.name]
				if gf.nonNilErr {
					r.assumeGlobal(not(eq(app("i_tag", init), "0")))
					r.assumed["global initialised once by its package and never reassigned: "+a.glob.String()+" != nil"] = true
				}
				if gf.nonNilRef && sort == SInt {
					r.assumeGlobal(app(">", init, "0"))
					r.assumed["global initialised once by its package and never reassigned: "+a.glob.String()+" != nil"] = true
				}
				if gf.constInit != nil {
					r.assumeGlobal(eq(init, r.constVal(gf.constInit).S))
					r.assumed["global initialised once by its package and never reassigned: "+a.glob.String()] = true
				}
			}
		}
		return TV{h, sort, a.typ}
	}
	panic("bad addr")
}

func (r *Run) store(st *State, a *Addr, v TV) {
	switch a.kind {
	case aField:
		r.storeField(st, a.base, a.si, a.field, v)
	case aElem:
		name, h := r.elemHeap(st, a.typ)
		r.heapSet(st, name, app("store", h, a.base, app("store", app("select", h, a.base), a.idx, v.S)))
		if _, isConst := numeral(a.idx); isConst || strings.HasPrefix(a.idx, "(+ (s_off") {
			// a tautology that names the element just written: gives quantifier instantiation (E-matching) a read term
			// for elements of literal slices, which are otherwise only ever stored
			r.emit(fmt.Sprintf("(assert (= (select (select %s %s) %s) %s)) ;bg", r.heapGet(st, name), a.base, a.idx, v.S))
		}
	case aCell:
		r.storeAt(st, a.base, a.typ, v)
	case aGlobal:
		r.load(st, a) // make sure the heap is declared
		r.heapSet(st, a.name, v.S)
	}
}

// alloc returns a fresh reference.
func (r *Run) alloc(st *State, prefix string) string {
	ref := r.define(prefix, SInt, app("+", st.frontier, "0"))
	st.frontier = r.define("frontier", SInt, app("+", ref, "1"))
	return ref
}

func (r *Run) addrToTV(a *Addr, ptrT types.Type) TV {
	if a.kind == aCell {
		return TV{a.base, SInt, ptrT}
	}
	// encode other locations opaquely but injectively
	switch a.kind {
	case aField:
		return TV{app("fieldloc", a.base, num(int64(a.field))), SInt, ptrT}
	case aElem:
		return TV{app("elemref", a.base, a.idx), SInt, ptrT}
	}
	return TV{"0", SInt, ptrT}
}

// ---------------------------------------------------------------------------------------------
// merging

func (r *Run) mergeStates(sts []*State) *State {
	var live []*State
	for _, s := range sts {
		if s != nil && !s.dead && s.reach != "false" {
			live = append(live, s)
		}
	}
	if len(live) == 0 {
		return &State{reach: "false", dead: true, env: map[ssa.Value]Val{}, heaps: map[string]string{}, vars: map[string]Val{}, frontier: "0"}
	}
	if len(live) == 1 {
		return live[0].clone()
	}
	out := live[0].clone()
	for _, s := range live[1:] {
		out = r.merge2(out, s)
	}
	return out
}

func (r *Run) mergeVal(c string, a, b Val) (Val, bool) {
	switch x := a.(type) {
	case TV:
		y, ok := b.(TV)
		if !ok || x.Sort != y.Sort {
			return nil, false
		}
		if x.S == y.S {
			return x, true
		}
		return TV{r.define("m", x.Sort, ite(c, x.S, y.S)), x.Sort, x.T}, true
	case *Addr:
		y, ok := b.(*Addr)
		if !ok || x.kind != y.kind || x.si != y.si || x.field != y.field || x.name != y.name {
			return nil, false
		}
		if x.typ != nil && y.typ != nil && !types.Identical(x.typ, y.typ) {
			return nil, false
		}
		n := *x
		if x.base != y.base {
			n.base = r.define("mb", SInt, ite(c, x.base, y.base))
		}
		if x.idx != y.idx {
			n.idx = r.define("mi", SInt, ite(c, x.idx, y.idx))
		}
		return &n, true
	case Tuple:
		y, ok := b.(Tuple)
		if !ok || len(x) != len(y) {
			return nil, false
		}
		out := make(Tuple, len(x))
		for i := range x {
			v, ok := r.mergeVal(c, x[i], y[i])
			if !ok {
				return nil, false
			}
			out[i] = v
		}
		return out, true
	case *Closure:
		y, ok := b.(*Closure)
		if ok && x == y {
			return x, true
		}
		if ok && x.fn == y.fn && len(x.binds) == len(y.binds) {
			n := &Closure{fn: x.fn, ref: x.ref}
			for i := range x.binds {
				v, ok := r.mergeVal(c, x.binds[i], y.binds[i])
				if !ok {
					return nil, false
				}
				n.binds = append(n.binds, v)
			}
			return n, true
		}
		return nil, false
	}
	return nil, false
}

// merge2 merges b into a (a is consumed).
func (r *Run) merge2(a, b *State) *State {
	c := a.reach // condition selecting a's values
	out := a
	for k, v := range a.eqFacts {
		if b.eqFacts[k] != v {
			delete(out.eqFacts, k)
		}
	}
	// deterministic order: the names of fresh constants depend on it
	envKeys := make([]ssa.Value, 0, len(a.env))
	for k := range a.env {
		envKeys = append(envKeys, k)
	}
	sort.Slice(envKeys, func(i, j int) bool {
		ni, nj := envKeys[i].Name(), envKeys[j].Name()
		if ni != nj {
			if len(ni) != len(nj) {
				return len(ni) < len(nj)
			}
			return ni < nj
		}
		return envKeys[i].Pos() < envKeys[j].Pos()
	})
	for _, k := range envKeys {
		va := a.env[k]
		vb, ok := b.env[k]
		if !ok {
			delete(out.env, k)
			continue
		}
		if m, ok := r.mergeVal(c, va, vb); ok {
			out.env[k] = m
		} else {
			delete(out.env, k)
		}
	}
	for _, k := range sortedKeys(a.vars) {
		va := a.vars[k]
		vb, ok := b.vars[k]
		if !ok {
			// the variable is not in scope on the other path: there its value is irrelevant. Kept lazily (a constant for the
			// other side is only introduced if a contract actually mentions the variable).
			switch x := va.(type) {
			case TV:
				if x.T != nil && !strings.HasPrefix(k, "undef:") {
					out.vars[k] = &OneSided{cond: c, tv: x}
					continue
				}
			case *OneSided:
				out.vars[k] = &OneSided{cond: and(c, x.cond), tv: x.tv}
				continue
			}
			delete(out.vars, k)
			continue
		}
		if oa, isO := va.(*OneSided); isO {
			va = r.materialize(oa)
		}
		if ob, isO := vb.(*OneSided); isO {
			vb = r.materialize(ob)
		}
		if m, ok := r.mergeVal(c, va, vb); ok {
			out.vars[k] = m
		} else {
			delete(out.vars, k)
		}
	}
	for _, k := range sortedKeys(b.vars) {
		if _, inA := a.vars[k]; inA {
			continue
		}
		switch x := b.vars[k].(type) {
		case TV:
			if x.T != nil && !strings.HasPrefix(k, "undef:") {
				out.vars[k] = &OneSided{cond: not(c), tv: x}
			}
		case *OneSided:
			out.vars[k] = &OneSided{cond: and(not(c), x.cond), tv: x.tv}
		}
	}
	names := map[string]bool{}
	for k := range a.heaps {
		names[k] = true
	}
	for k := range b.heaps {
		names[k] = true
	}
	for _, k := range sortedKeys(names) {
		ha, oka := a.heaps[k]
		hb, okb := b.heaps[k]
		if !oka {
			ha = r.heapInit[k]
		}
		if !okb {
			hb = r.heapInit[k]
		}
		if ha != hb {
			out.heaps[k] = r.define(k, r.heapSort[k], ite(c, ha, hb))
		} else {
			out.heaps[k] = ha
		}
	}
	if a.frontier != b.frontier {
		out.frontier = r.define("frontier", SInt, ite(c, a.frontier, b.frontier))
	}
	// defers: union keyed by instruction
	idx := map[*ssa.Defer]int{}
	var ds []deferEntry
	for _, d := range a.defers {
		idx[d.instr] = len(ds)
		ds = append(ds, d)
	}
	seenB := map[*ssa.Defer]bool{}
	for _, d := range b.defers {
		seenB[d.instr] = true
		if i, ok := idx[d.instr]; ok {
			da := ds[i]
			da.guard = r.define("dg", SBool, ite(c, da.guard, d.guard))
			for j := range da.args {
				if m, ok := r.mergeVal(c, da.args[j], d.args[j]); ok {
					da.args[j] = m
				}
			}
			ds[i] = da
		} else {
			d.guard = r.define("dg", SBool, and(not(c), d.guard))
			ds = append(ds, d)
		}
	}
	for i := range ds {
		if !seenB[ds[i].instr] {
			if _, inA := idx[ds[i].instr]; inA {
				ds[i].guard = r.define("dg", SBool, and(c, ds[i].guard))
			}
		}
	}
	sort.SliceStable(ds, func(i, j int) bool { return ds[i].order < ds[j].order })
	out.defers = ds
	out.reach = r.define("reach", SBool, or(a.reach, b.reach))
	return out
}

// firstSort returns the first sort expression at the start of s (an identifier or a parenthesised term).
func firstSort(s string) string {
	if !strings.HasPrefix(s, "(") {
		if i := strings.IndexAny(s, " )"); i >= 0 {
			return s[:i]
		}
		return s
	}
	depth := 0
	for i, c := range s {
		if c == '(' {
			depth++
		} else if c == ')' {
			depth--
			if depth == 0 {
				return s[:i+1]
			}
		}
	}
	return s
}
