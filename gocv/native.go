package main

// Built-in models of library functions (each one is part of the trusted base and is listed in the evidence
// when a proof goes through it).

import (
	"fmt"
	"go/types"
	"strings"

	"golang.org/x/tools/go/ssa"
)

var nonNilErrorFuncs = map[string]bool{
	"errors.New": true, "fmt.Errorf": true,
	"github.com/pkg/errors.New": true, "github.com/pkg/errors.Errorf": true,
	"github.com/pingcap/errors.New": true, "github.com/pingcap/errors.Errorf": true,
}

// wrap-like functions: result is nil iff the (first error) argument is nil
var wrapErrorFuncs = map[string]bool{
	"github.com/pkg/errors.WithStack": true, "github.com/pkg/errors.Wrap": true, "github.com/pkg/errors.Wrapf": true,
	"github.com/pkg/errors.WithMessage": true, "github.com/pkg/errors.WithMessagef": true,
	"github.com/pingcap/errors.WithStack": true, "github.com/pingcap/errors.Trace": true, "github.com/pingcap/errors.Annotate": true,
	"github.com/pingcap/errors.Annotatef": true, "github.com/pingcap/errors.AddStack": true,
	"github.com/pkg/errors.Cause": true, "github.com/pingcap/errors.Cause": true,
}

func (fr *Frame) nativeCall(st *State, fn *ssa.Function, c *ssa.CallCommon, args []Val, v ssa.Value) (Val, bool) {
	if name := fn.String(); (name == "errors.As" || name == "github.com/pkg/errors.As" || name == "github.com/pingcap/errors.As") && len(c.Args) == 2 {
		// errors.As(err, &target): false for a nil error; when it answers true the target holds a non-nil value of its
		// type; when false the target is untouched
		if mi, ok := c.Args[1].(*ssa.MakeInterface); ok {
			if pt, ok := mi.X.Type().Underlying().(*types.Pointer); ok {
				r := fr.run
				r.assumed["native:"+name] = true
				errT := types.Universe.Lookup("error").Type()
				e := fr.tvOf(st, args[0], errT)
				// the answer is a function of the error value and the target type (two calls on the same error agree)
				okv := app("errAs", e.S, fmt.Sprintf("%d", r.eng.typeID(pt.Elem())))
				r.assumeGlobal(implies(eq(app("i_tag", e.S), "0"), not(okv)))
				cell := fr.tv(st, mi.X)
				old := r.loadAt(st, cell.S, pt.Elem())
				nv := r.freshOf(st, "astarget", pt.Elem())
				switch pt.Elem().Underlying().(type) {
				case *types.Pointer:
					r.assumeGlobal(not(eq(nv.S, "0")))
				case *types.Interface:
					r.assumeGlobal(not(eq(app("i_tag", nv.S), "0")))
				}
				r.storeAt(st, cell.S, pt.Elem(), TV{ite(okv, nv.S, old.S), nv.Sort, pt.Elem()})
				return TV{okv, SBool, types.Typ[types.Bool]}, true
			}
		}
	}
	return fr.nativeCallVals(st, fn, args, c.Signature())
}

func (fr *Frame) tvOf(st *State, v Val, t types.Type) TV { return fr.run.toTV(st, v, t) }

func (fr *Frame) nativeCallVals(st *State, fn *ssa.Function, args []Val, sig *types.Signature) (Val, bool) {
	r := fr.run
	name := fn.String()
	key := r.eng.sorts.keyMode
	used := func() { r.assumed["native:"+name] = true }
	errT := types.Universe.Lookup("error").Type()
	switch {
	case nonNilErrorFuncs[name]:
		used()
		e := r.freshOf(st, "err", errT)
		// the dynamic type is a private type of the errors library (distinct from every type of the module)
		r.assumeGlobal(eq(app("i_tag", e.S), num(int64(r.eng.pseudoTypeID("errors library: fundamental")))))
		return e, true
	case wrapErrorFuncs[name]:
		used()
		in := fr.tvOf(st, args[0], errT)
		e := r.freshOf(st, "werr", errT)
		r.assumeGlobal(eq(eq(app("i_tag", e.S), "0"), eq(app("i_tag", in.S), "0")))
		if !strings.HasSuffix(name, ".Cause") {
			r.assumeGlobal(or(eq(app("i_tag", e.S), "0"), eq(app("i_tag", e.S), num(int64(r.eng.pseudoTypeID("errors library: wrapper"))))))
		}
		if strings.HasSuffix(name, ".WithStack") || strings.HasSuffix(name, ".Trace") || strings.HasSuffix(name, ".AddStack") {
			// cause is preserved (used by errors.Cause / Is comparisons)
			r.assumeGlobal(eq(app("errcause", e.S), app("errcause", in.S)))
			r.assumeGlobal("(forall ((t Iface)) (! (= (errIs " + e.S + " t) (errIs " + in.S + " t)) :pattern ((errIs " + e.S + " t))))")
			// the wrapped error "is" the error it wraps (ground instance of the two facts above, for the solver's benefit)
			r.assumeGlobal(app("errIs", e.S, in.S))
		}
		if strings.HasSuffix(name, ".Cause") {
			r.assumeGlobal(eq(e.S, app("errcause", in.S)))
		}
		return e, true
	}
	if name == "errors.Is" || name == "github.com/pkg/errors.Is" || name == "github.com/pingcap/errors.Is" {
		// errors.Is(err, target): an uninterpreted relation with the facts every implementation gives: a nil error is
		// nothing but nil, and an error is itself
		used()
		a, b := fr.tvOf(st, args[0], errT), fr.tvOf(st, args[1], errT)
		return TV{app("errIs", a.S, b.S), SBool, types.Typ[types.Bool]}, true
	}
	if strings.HasPrefix(name, "(*sync/atomic.Pointer[") {
		// atomic.Pointer[T]: the pointer is held in field v
		used()
		pt := fn.Signature.Recv().Type().(*types.Pointer).Elem()
		si := r.eng.sorts.structOf(pt)
		fi := -1
		for i := 0; i < si.st.NumFields(); i++ {
			if si.st.Field(i).Name() == "v" {
				fi = i
			}
		}
		if fi >= 0 {
			recv := fr.tvOf(st, args[0], nil)
			a := &Addr{kind: aField, base: recv.S, si: si, field: fi, typ: si.st.Field(fi).Type()}
			method := fn.Name()
			if i := strings.Index(method, "["); i > 0 {
				method = method[:i]
			}
			switch method {
			case "Load":
				v := r.load(st, a)
				v.S = r.define("aload", v.Sort, v.S)
				v.T = sig.Results().At(0).Type()
				r.assumeGlobal(r.typeInv(v.S, v.T, st))
				return v, true
			case "Store":
				r.store(st, a, fr.tvOf(st, args[1], nil))
				return nil, true
			case "CompareAndSwap":
				cur := r.load(st, a)
				o, n := fr.tvOf(st, args[1], nil), fr.tvOf(st, args[2], nil)
				okc := r.define("cas", SBool, eq(cur.S, o.S))
				r.store(st, a, TV{ite(okc, n.S, cur.S), cur.Sort, a.typ})
				return TV{okc, SBool, types.Typ[types.Bool]}, true
			case "Swap":
				cur := r.load(st, a)
				cur.S = r.define("aswap", cur.Sort, cur.S)
				cur.T = sig.Results().At(0).Type()
				r.store(st, a, fr.tvOf(st, args[1], nil))
				return cur, true
			}
		}
	}
	switch name {
	case "(encoding/binary.bigEndian).PutUint64", "(encoding/binary.bigEndian).PutUint32", "(encoding/binary.bigEndian).PutUint16",
		"(encoding/binary.littleEndian).PutUint64", "(encoding/binary.littleEndian).PutUint32", "(encoding/binary.littleEndian).PutUint16":
		used()
		n := map[string]int{"64": 8, "32": 4, "16": 2}[name[len(name)-2:]]
		big := strings.Contains(name, "bigEndian")
		b := fr.tvOf(st, args[1], nil)
		v := fr.tvOf(st, args[2], nil)
		if b.Sort != SSlice {
			return nil, true
		}
		hname, h := r.elemHeap(st, types.Typ[types.Uint8])
		arr := app("select", h, app("s_arr", b.S))
		for j := 0; j < n; j++ {
			shift := uint(8 * (n - 1 - j))
			if !big {
				shift = uint(8 * j)
			}
			arr = app("store", arr, app("+", app("s_off", b.S), num(int64(j))), bitField(v.S, shift, shift+8))
		}
		if fr.top && fr.spec.Safety {
			r.oblige(st, "index-in-range", "PutUint", "buffer long enough", app(">=", app("s_len", b.S), num(int64(n))))
		}
		r.heapSet(st, hname, app("store", h, app("s_arr", b.S), arr))
		return nil, true
	case "(encoding/binary.bigEndian).Uint64", "(encoding/binary.bigEndian).Uint32", "(encoding/binary.bigEndian).Uint16",
		"(encoding/binary.littleEndian).Uint64", "(encoding/binary.littleEndian).Uint32", "(encoding/binary.littleEndian).Uint16":
		used()
		n := map[string]int{"64": 8, "32": 4, "16": 2}[name[len(name)-2:]]
		big := strings.Contains(name, "bigEndian")
		b := fr.tvOf(st, args[1], nil)
		rt := sig.Results().At(0).Type()
		if b.Sort != SSlice {
			return r.freshOf(st, "u", rt), true
		}
		_, h := r.elemHeap(st, types.Typ[types.Uint8])
		arr := app("select", h, app("s_arr", b.S))
		var terms []string
		for j := 0; j < n; j++ {
			shift := uint(8 * (n - 1 - j))
			if !big {
				shift = uint(8 * j)
			}
			by := app("select", arr, app("+", app("s_off", b.S), num(int64(j))))
			r.assumeGlobal(and(app("<=", "0", by), app("<=", by, "255")))
			if shift > 0 {
				by = app("*", by, pow2(shift).String())
			}
			terms = append(terms, by)
		}
		if fr.top && fr.spec.Safety {
			r.oblige(st, "index-in-range", "Uint", "buffer long enough", app(">=", app("s_len", b.S), num(int64(n))))
		}
		return TV{app("+", terms...), SInt, rt}, true
	case "bytes.Compare":
		if key {
			used()
			a, b := fr.tvOf(st, args[0], nil), fr.tvOf(st, args[1], nil)
			return TV{ite(app("<", a.S, b.S), "(- 1)", ite(eq(a.S, b.S), "0", "1")), SInt, types.Typ[types.Int]}, true
		}
	case "bytes.HasPrefix":
		if key {
			used()
			a, b := fr.tvOf(st, args[0], nil), fr.tvOf(st, args[1], nil)
			return TV{app("khasprefix", a.S, b.S), SBool, types.Typ[types.Bool]}, true
		}
	case "bytes.Equal":
		if key {
			used()
			a, b := fr.tvOf(st, args[0], nil), fr.tvOf(st, args[1], nil)
			return TV{eq(a.S, b.S), SBool, types.Typ[types.Bool]}, true
		}
	case "github.com/tikv/client-go/v2/kv.NextKey", "github.com/tikv/client-go/v2/kv.Key.Next", "(github.com/tikv/client-go/v2/kv.Key).Next":
		if key {
			used()
			a := fr.tvOf(st, args[0], nil)
			return TV{app("+", a.S, "1"), SInt, sig.Results().At(0).Type()}, true
		}
	case "github.com/tikv/client-go/v2/kv.CmpKey", "(github.com/tikv/client-go/v2/kv.Key).Cmp":
		if key {
			used()
			a, b := fr.tvOf(st, args[0], nil), fr.tvOf(st, args[1], nil)
			return TV{ite(app("<", a.S, b.S), "(- 1)", ite(eq(a.S, b.S), "0", "1")), SInt, types.Typ[types.Int]}, true
		}
	case "bytes.Clone", "slices.Clone[[]byte byte]", "(github.com/tikv/client-go/v2/kv.Key).Clone":
		if key {
			used()
			return fr.tvOf(st, args[0], nil), true
		}
	case "(*sync.Pool).Get":
		// a pooled object is referenced by nobody else (the pool discipline: no use after Put): modelled as a new object of
		// unknown dynamic type and contents
		used()
		ref := r.alloc(st, "pooled")
		tag := r.declare("pooltag", SInt)
		r.assumeGlobal(app(">", tag, "0"))
		return TV{app("mk_iface", tag, ref), SIface, sig.Results().At(0).Type()}, true
	case "(*sync.Pool).Put":
		used()
		return nil, true
	case "(*sync.Mutex).Lock", "(*sync.RWMutex).Lock":
		used()
		fr.setHeld(st, args[0], 1, true)
		return nil, true
	case "(*sync.Mutex).Unlock", "(*sync.RWMutex).Unlock":
		used()
		fr.setHeld(st, args[0], 0, true)
		return nil, true
	case "(*sync.RWMutex).RLock":
		used()
		fr.setHeld(st, args[0], 2, true)
		return nil, true
	case "(*sync.RWMutex).RUnlock":
		used()
		fr.setHeld(st, args[0], 0, true)
		return nil, true
	case "(*sync.Mutex).TryLock":
		used()
		ok := r.declare("trylock", SBool)
		return TV{ok, SBool, types.Typ[types.Bool]}, true
	case "sync/atomic.LoadInt64", "sync/atomic.LoadUint64", "sync/atomic.LoadInt32", "sync/atomic.LoadUint32", "sync/atomic.LoadPointer", "sync/atomic.LoadUintptr":
		used()
		a := r.derefAddr(st, args[0], types.NewPointer(sig.Results().At(0).Type()))
		if a.typ == nil {
			a.typ = sig.Results().At(0).Type()
		}
		v := r.load(st, a)
		v.S = r.define("aload", v.Sort, v.S)
		r.assumeGlobal(r.typeInv(v.S, a.typ, st))
		return v, true
	case "sync/atomic.StoreInt64", "sync/atomic.StoreUint64", "sync/atomic.StoreInt32", "sync/atomic.StoreUint32", "sync/atomic.StorePointer", "sync/atomic.StoreUintptr":
		used()
		vt := sig.Params().At(1).Type()
		a := r.derefAddr(st, args[0], types.NewPointer(vt))
		if a.typ == nil {
			a.typ = vt
		}
		nv := fr.tvOf(st, args[1], vt)
		fr.checkTransition(st, nil, a, nv)
		r.store(st, a, nv)
		return nil, true
	case "sync/atomic.AddInt64", "sync/atomic.AddUint64", "sync/atomic.AddInt32", "sync/atomic.AddUint32":
		used()
		vt := sig.Params().At(1).Type()
		a := r.derefAddr(st, args[0], types.NewPointer(vt))
		if a.typ == nil {
			a.typ = vt
		}
		old := r.load(st, a)
		d := fr.tvOf(st, args[1], vt)
		nv := TV{r.define("aadd", SInt, wrapTo(vt, app("+", old.S, d.S))), SInt, vt}
		fr.checkTransition(st, nil, a, nv)
		r.store(st, a, nv)
		return nv, true
	case "sync/atomic.CompareAndSwapInt64", "sync/atomic.CompareAndSwapUint64", "sync/atomic.CompareAndSwapInt32", "sync/atomic.CompareAndSwapUint32", "sync/atomic.CompareAndSwapPointer":
		used()
		vt := sig.Params().At(1).Type()
		a := r.derefAddr(st, args[0], types.NewPointer(vt))
		if a.typ == nil {
			a.typ = vt
		}
		cur := r.load(st, a)
		o, n := fr.tvOf(st, args[1], vt), fr.tvOf(st, args[2], vt)
		okc := r.define("cas", SBool, eq(cur.S, o.S))
		// transition checked under success only
		if fr.top {
			save := st.reach
			st.reach = r.define("reach", SBool, and(st.reach, okc))
			fr.checkTransition(st, nil, a, n)
			st.reach = save
		}
		r.store(st, a, TV{ite(okc, n.S, cur.S), cur.Sort, vt})
		return TV{okc, SBool, types.Typ[types.Bool]}, true
	case "github.com/tikv/client-go/v2/util.EvalFailpoint":
		used()
		// failpoints disabled: returns (nil, non-nil error)
		e := r.freshOf(st, "fperr", errT)
		r.assumeGlobal(not(eq(app("i_tag", e.S), "0")))
		return Tuple{TV{"(mk_iface 0 0)", SIface, sig.Results().At(0).Type()}, e}, true
	case "math.Min", "math.Max":
		used()
		a, b := fr.tvOf(st, args[0], nil), fr.tvOf(st, args[1], nil)
		if a.Sort == SReal && b.Sort == SReal {
			op := "<="
			if name == "math.Max" {
				op = ">="
			}
			return TV{ite(app(op, a.S, b.S), a.S, b.S), SReal, sig.Results().At(0).Type()}, true
		}
	case "math.Pow":
		used()
		// floating point treated as real arithmetic (recorded as an assumption): Pow is an uninterpreted real function
		// with the one fact used: a base >= 1 raised to a non-negative power is >= 1
		a, b := fr.tvOf(st, args[0], nil), fr.tvOf(st, args[1], nil)
		if a.Sort == SReal && b.Sort == SReal {
			v := app("fpow", a.S, b.S)
			r.assumeGlobal(implies(and(app(">=", a.S, "1.0"), app(">=", b.S, "0.0")), app(">=", v, "1.0")))
			r.assumed["floating-point arithmetic (math.Pow, math.Min, float64 conversions) treated as exact real arithmetic"] = true
			return TV{v, SReal, sig.Results().At(0).Type()}, true
		}
	case "math/rand.Intn", "math/rand/v2.IntN":
		used()
		n := fr.tvOf(st, args[0], nil)
		if fr.top {
			r.oblige(st, "requires@call", "rand.Intn.positive", "n > 0", app(">", n.S, "0"))
		}
		v := r.freshOf(st, "rand", types.Typ[types.Int])
		r.assume(st, and(app("<=", "0", v.S), app("<", v.S, n.S)))
		return v, true
	}
	return nil, false
}

// setHeld updates the ghost lock state of a mutex object (0 free, 1 write-held, 2 read-held).
func (fr *Frame) setHeld(st *State, m Val, v int, _ bool) {
	r := fr.run
	ref := r.toTV(st, m, nil).S
	name := r.eng.regHeap("GH_held", "(Array Int Int)", types.Typ[types.Int])
	h := r.heapGet(st, name)
	r.heapSet(st, name, app("store", h, ref, num(int64(v))))
}

func (fr *Frame) nativeInvoke(st *State, c *ssa.CallCommon, args []Val) (Val, bool) {
	r := fr.run
	sig := c.Signature()
	if types.TypeString(c.Value.Type(), nil) == "context.Context" {
		// ghost: done(ctx) becomes true when a receive from ctx.Done() is selected; afterwards ctx.Err() is non-nil
		name := r.eng.regHeap("GH_ctxdone", "(Array Iface Bool)", nil)
		ctx := r.toTV(st, args[0], c.Value.Type())
		switch c.Method.Name() {
		case "Done":
			ch := r.freshOf(st, "donech", sig.Results().At(0).Type())
			if fr.doneChans == nil {
				fr.doneChans = map[string]string{}
			}
			fr.doneChans[ch.S] = ctx.S
			r.assumed["native: context.Context: Err() is non-nil once a receive from Done() has been selected"] = true
			return ch, true
		case "Err":
			h := r.heapGet(st, name)
			e := r.freshOf(st, "ctxerr", sig.Results().At(0).Type())
			r.assume(st, implies(app("select", h, ctx.S), not(eq(app("i_tag", e.S), "0"))))
			return e, true
		}
	}
	switch c.Method.Name() {
	case "Error", "String":
		if sig.Params().Len() == 0 && sig.Results().Len() == 1 {
			return r.freshOf(st, "str", sig.Results().At(0).Type()), true
		}
	}
	return nil, false
}

func (e *Eng) inlineExternal(fn *ssa.Function) bool {
	if fn.Pkg == nil {
		return false
	}
	switch fn.Pkg.Pkg.Path() {
	case "sync/atomic":
		return true
	case "github.com/pingcap/kvproto/pkg/kvrpcpb", "github.com/pingcap/kvproto/pkg/metapb", "github.com/pingcap/kvproto/pkg/errorpb",
		"github.com/pingcap/kvproto/pkg/pdpb", "github.com/pingcap/kvproto/pkg/tikvpb", "github.com/pingcap/kvproto/pkg/coprocessor",
		"github.com/pingcap/kvproto/pkg/keyspacepb", "github.com/pingcap/kvproto/pkg/mpp":
		// generated getters
		return strings.HasPrefix(fn.Name(), "Get") || strings.HasPrefix(fn.Name(), "Is")
	case "bytes", "strings", "sort", "math", "time":
		return false
	}
	// tiny pure leaf functions of any dependency (e.g. mathutil.MaxUint64): no calls, no loops, no stores
	n := 0
	for _, b := range fn.Blocks {
		for _, s := range b.Succs {
			if s.Dominates(b) {
				return false
			}
		}
		for _, in := range b.Instrs {
			switch in.(type) {
			case *ssa.Call, *ssa.Store, *ssa.Go, *ssa.Defer, *ssa.MapUpdate, *ssa.Send, *ssa.Select, *ssa.Panic, *ssa.Alloc, *ssa.MakeClosure:
				return false
			case *ssa.DebugRef:
			default:
				n++
			}
		}
	}
	return n > 0 && n <= 14
}

var _ = fmt.Sprintf
