package main

import (
	"go/token"
	"fmt"
	"go/types"
	"os"
	"strings"

	"golang.org/x/tools/go/ssa"
)

// ---------------------------------------------------------------------------------------------
// maps

type mapInfo struct {
	mName, domName, lenName string
	m, dom, ln              string
	ksort, vsort            string
}

func (r *Run) mapHeaps(st *State, mt *types.Map) mapInfo {
	e := r.eng
	ks, vs := e.sorts.sortOf(mt.Key()), e.sorts.sortOf(mt.Elem())
	base := shortTypeName(mt.Key()) + "__" + shortTypeName(mt.Elem())
	mi := mapInfo{ksort: ks, vsort: vs}
	mi.mName = e.regHeap("M_"+base, fmt.Sprintf("(Array Int (Array %s %s))", ks, vs), mt.Elem())
	mi.domName = e.regHeap("MD_"+base, fmt.Sprintf("(Array Int (Array %s Bool))", ks), nil)
	mi.lenName = e.regHeap("ML_"+base, "(Array Int Int)", types.Typ[types.Int])
	if st != nil {
		mi.m, mi.dom, mi.ln = r.heapGet(st, mi.mName), r.heapGet(st, mi.domName), r.heapGet(st, mi.lenName)
	}
	return mi
}

func (fr *Frame) lookup(st *State, x *ssa.Lookup) {
	r := fr.run
	mt, ok := x.X.Type().Underlying().(*types.Map)
	if !ok { // string index
		fr.bind(st, x, r.freshOf(st, "strbyte", x.Type()))
		return
	}
	mi := r.mapHeaps(st, mt)
	m, k := fr.tv(st, x.X).S, fr.tv(st, x.Index).S
	in := r.define("inmap", SBool, and(not(eq(m, "0")), app("select", app("select", mi.dom, m), k)))
	v := r.define(x.Name(), mi.vsort, ite(in, app("select", app("select", mi.m, m), k), r.zero(mt.Elem()).S))
	r.assumeGlobal(r.typeInv(v, mt.Elem(), st))
	if x.CommaOk {
		st.env[x] = Tuple{TV{v, mi.vsort, mt.Elem()}, TV{in, SBool, types.Typ[types.Bool]}}
	} else {
		st.env[x] = TV{v, mi.vsort, mt.Elem()}
	}
}

func (fr *Frame) mapUpdate(st *State, x *ssa.MapUpdate) {
	r := fr.run
	mt := x.Map.Type().Underlying().(*types.Map)
	mi := r.mapHeaps(st, mt)
	m, k, v := fr.tv(st, x.Map).S, fr.tv(st, x.Key).S, fr.tv(st, x.Value).S
	was := and(not(eq(m, "0")), app("select", app("select", mi.dom, m), k))
	r.heapSet(st, mi.lenName, app("store", mi.ln, m, app("+", app("select", mi.ln, m), ite(was, "0", "1"))))
	r.heapSet(st, mi.mName, app("store", mi.m, m, app("store", app("select", mi.m, m), k, v)))
	r.heapSet(st, mi.domName, app("store", mi.dom, m, app("store", app("select", mi.dom, m), k, "true")))
}

func (fr *Frame) rangeInit(st *State, x *ssa.Range) {
	r := fr.run
	ref := r.alloc(st, "iter")
	if mt, ok := x.X.Type().Underlying().(*types.Map); ok {
		ks := r.eng.sorts.sortOf(mt.Key())
		name := r.eng.regHeap("IT_"+shortTypeName(mt.Key()), fmt.Sprintf("(Array Int (Array %s Bool))", ks), nil)
		h := r.heapGet(st, name)
		r.heapSet(st, name, app("store", h, ref, fmt.Sprintf("((as const (Array %s Bool)) false)", ks)))
	}
	fr.bind(st, x, TV{ref, SInt, x.Type()})
	fr.setVar(st, "iter#"+fmt.Sprint(x.Pos()), TV{ref, SInt, x.Type()})
}

func (fr *Frame) rangeNext(st *State, x *ssa.Next) {
	r := fr.run
	tup := x.Type().(*types.Tuple)
	okv := r.declare("nextok", SBool)
	out := Tuple{TV{okv, SBool, types.Typ[types.Bool]}}
	rg, _ := x.Iter.(*ssa.Range)
	if x.IsString || rg == nil {
		out = append(out, r.freshOf(st, "ri", tup.At(1).Type()), r.freshOf(st, "rv", tup.At(2).Type()))
		st.env[x] = out
		return
	}
	mt := rg.X.Type().Underlying().(*types.Map)
	mi := r.mapHeaps(st, mt)
	it := fr.tv(st, x.Iter).S
	m := fr.tv(st, rg.X).S
	name := r.eng.regHeap("IT_"+shortTypeName(mt.Key()), fmt.Sprintf("(Array Int (Array %s Bool))", mi.ksort), nil)
	h := r.heapGet(st, name)
	k := r.freshOf(st, "rk", mt.Key())
	visited := app("select", h, it)
	dom := app("select", mi.dom, m)
	r.assume(st, implies(okv, and(not(eq(m, "0")), app("select", dom, k.S), not(app("select", visited, k.S)))))
	q := r.fresh("qk")
	r.assume(st, implies(not(okv), fmt.Sprintf("(forall ((%s %s)) (=> (select %s %s) (select %s %s)))", q, mi.ksort, dom, q, visited, q)))
	v := TV{r.define("rv", mi.vsort, app("select", app("select", mi.m, m), k.S)), mi.vsort, mt.Elem()}
	r.assumeGlobal(r.typeInv(v.S, mt.Elem(), st))
	r.heapSet(st, name, app("store", h, it, ite(okv, app("store", visited, k.S, "true"), visited)))
	out = append(out, k, v)
	st.env[x] = out
}

// ---------------------------------------------------------------------------------------------
// calls

func (fr *Frame) argVals(st *State, c *ssa.CallCommon) []Val {
	var out []Val
	for _, a := range c.Args {
		out = append(out, fr.val(st, a))
	}
	return out
}

func resultType(sig *types.Signature) types.Type {
	switch sig.Results().Len() {
	case 0:
		return nil
	case 1:
		return sig.Results().At(0).Type()
	}
	return sig.Results()
}

func (fr *Frame) freshResults(st *State, sig *types.Signature, prefix string) Val {
	r := fr.run
	switch sig.Results().Len() {
	case 0:
		return nil
	case 1:
		return r.freshOf(st, prefix, sig.Results().At(0).Type())
	}
	out := make(Tuple, sig.Results().Len())
	for i := range out {
		out[i] = r.freshOf(st, fmt.Sprintf("%s_%d", prefix, i), sig.Results().At(i).Type())
	}
	return out
}

func calleeName(c *ssa.CallCommon) string {
	if c.IsInvoke() {
		return c.Method.Name()
	}
	if f := c.StaticCallee(); f != nil {
		n := f.Name()
		if i := strings.Index(n, "["); i > 0 {
			n = n[:i] // instantiated generic
		}
		return n
	}
	if b, ok := c.Value.(*ssa.Builtin); ok {
		return b.Name()
	}
	return c.Value.Name()
}

func (fr *Frame) call(st *State, in ssa.Instruction, c *ssa.CallCommon, v ssa.Value) Val {
	r := fr.run
	fr.siteAsserts(st, c, "call")
	sig := c.Signature()
	if b, ok := c.Value.(*ssa.Builtin); ok {
		return fr.builtin(st, b, c, v)
	}
	var fn *ssa.Function
	var args []Val
	var clo *Closure
	if c.IsInvoke() {
		recv := fr.val(st, c.Value)
		args = append([]Val{recv}, fr.argVals(st, c)...)
		// interface method contract
		name := fmt.Sprintf("(%s).%s", types.TypeString(c.Value.Type(), nil), c.Method.Name())
		if sp := r.eng.specs.Funcs[name]; sp != nil {
			if sp.Pure && sp.Trusted && sig.Results().Len() == 1 {
				// a trusted pure interface method: the same uninterpreted function of receiver and arguments that a
				// contract mentioning the call evaluates to (not a fresh value per call)
				cxp := fr.newCtx(st, nil, true)
				msig := c.Method.Type().(*types.Signature)
				var tvs []TV
				okArgs := true
				for i, a := range args[1:] {
					if i >= msig.Params().Len() {
						okArgs = false
						break
					}
					tvs = append(tvs, r.toTV(st, a, msig.Params().At(i).Type()))
				}
				if okArgs {
					if tv, err := cxp.ifaceSpecCall(r.toTV(st, recv, c.Value.Type()), c.Method, tvs); err == nil {
						fr.overrideRes = tv
					}
				}
			}
			return fr.applyContract(st, sp, nil, sig, args, recvAndParams(c.Method.Type().(*types.Signature), "recv"), name)
		}
		if res, ok := fr.nativeInvoke(st, c, args); ok {
			return res
		}
		r.abstracted[name] = true
		return fr.havocCall(st, nil, sig, args, name)
	}
	fv := fr.val(st, c.Value)
	if cl, ok := fv.(*Closure); ok {
		fn = cl.fn
		clo = cl
	}
	args = fr.argVals(st, c)
	if fn == nil {
		// a call through a package variable that is initialised with a function and never assigned again
		if u, ok := c.Value.(*ssa.UnOp); ok && u.Op == token.MUL {
			if g, ok := u.X.(*ssa.Global); ok {
				if gf := r.eng.globalFactOf(g); gf.immutable && gf.funcInit != nil {
					fn = gf.funcInit
				}
			}
		}
	}
	if fn == nil {
		// dynamic call through a named function type that carries a contract
		if nt, ok := c.Value.Type().(*types.Named); ok && nt.Obj().Pkg() != nil {
			if sp := r.eng.specs.Funcs["functype "+nt.Obj().Pkg().Path()+"."+nt.Obj().Name()]; sp != nil {
				var names []string
				for i := 0; i < sig.Params().Len(); i++ {
					n := sig.Params().At(i).Name()
					if n == "" || n == "_" {
						n = fmt.Sprintf("arg%d", i)
					}
					names = append(names, n)
				}
				// `fn` names the function value that is called
				names = append(names, "fn")
				full := append(append([]Val{}, args...), fv)
				return fr.applyContract(st, sp, nil, sig, full, names, sp.Name)
			}
		}
		r.abstracted["dynamic call in "+fr.fn.Name()] = true
		return fr.havocCall(st, nil, sig, args, "dynamic")
	}
	name := fn.String()
	if res, ok := fr.iterateCall(st, fn, c, args); ok {
		return res
	}
	if res, ok := fr.nativeCall(st, fn, c, args, v); ok {
		return res
	}
	if sp := r.eng.specs.Funcs[name]; sp != nil && !sp.Inline && !(fr.spec != nil && fr.spec.InlineSet[fn.Name()]) {
		pn := paramNames(fn)
		full := args
		if clo != nil && len(clo.binds) > 0 {
			// free variables are addressed by name in closure contracts
			for i, fvv := range fn.FreeVars {
				pn = append(pn, fvv.Name())
				full = append(full, clo.binds[i])
			}
		}
		return fr.applyContract(st, sp, fn, sig, full, pn, name)
	}
	if fr.canInline(fn) {
		return fr.inlineCall(st, fn, clo, args)
	}
	r.abstracted[name] = true
	return fr.havocCall(st, fn, sig, args, name)
}

func paramNames(fn *ssa.Function) []string {
	var out []string
	for _, p := range fn.Params {
		out = append(out, p.Name())
	}
	return out
}

func recvAndParams(sig *types.Signature, recvName string) []string {
	out := []string{recvName}
	for i := 0; i < sig.Params().Len(); i++ {
		n := sig.Params().At(i).Name()
		if n == "" || n == "_" {
			n = fmt.Sprintf("arg%d", i)
		}
		out = append(out, n)
	}
	return out
}

func (fr *Frame) canInline(fn *ssa.Function) bool {
	if len(fn.Blocks) == 0 {
		return false
	}
	if fr.spec != nil && fr.spec.Opaque[fn.Name()] {
		return false
	}
	force := fr.spec != nil && fr.spec.InlineSet[fn.Name()]
	if sp := fr.run.eng.specs.Funcs[fn.String()]; sp != nil && sp.Inline {
		force = true
	}
	maxDepth := 3
	if force {
		maxDepth = 6
	}
	if fr.depth >= maxDepth {
		return false
	}
	for _, f := range fr.stack {
		if f == fn {
			return false
		}
	}
	if fn == fr.fn {
		return false
	}
	if force {
		return true
	}
	fpkg := fn.Pkg
	if fpkg == nil && fn.Origin() != nil {
		fpkg = fn.Origin().Pkg // an instance of a generic function belongs to the package of the generic
	}
	if fpkg == nil || !fr.run.eng.inModule(fpkg.Pkg.Path()) {
		// outside the module: only trivially small leaf functions
		if !fr.run.eng.inlineExternal(fn) {
			return false
		}
	}
	n := 0
	for _, b := range fn.Blocks {
		n += len(b.Instrs)
		for _, s := range b.Succs {
			if s.Dominates(b) {
				return false // loop
			}
		}
		for _, in := range b.Instrs {
			switch in.(type) {
			case *ssa.DebugRef:
				n--
			case *ssa.Go, *ssa.Select, *ssa.Defer:
				return false
			}
		}
	}
	return n <= 40
}

func (fr *Frame) inlineCall(st *State, fn *ssa.Function, clo *Closure, args []Val) Val {
	r := fr.run
	r.inlined[fn.String()] = true
	sub := &Frame{run: r, fn: fn, top: false, depth: fr.depth + 1, stack: append(append([]*ssa.Function(nil), fr.stack...), fr.fn)}
	saveEnv, saveVars, saveDefers := st.env, st.vars, st.defers
	st.env = map[ssa.Value]Val{}
	st.vars = map[string]Val{}
	st.defers = nil
	for i, p := range fn.Params {
		if i < len(args) {
			st.env[p] = args[i]
		}
	}
	if clo != nil {
		for i, fv := range fn.FreeVars {
			if i < len(clo.binds) {
				st.env[fv] = clo.binds[i]
			}
		}
	}
	sub.entry = st.clone()
	exit, res := sub.execFunction(st)
	// continue in the caller with the callee's heap
	st.reach = exit.reach
	st.heaps = exit.heaps
	st.frontier = exit.frontier
	st.dead = exit.dead
	st.env, st.vars, st.defers = saveEnv, saveVars, saveDefers
	switch len(res) {
	case 0:
		return nil
	case 1:
		return res[0]
	}
	return Tuple(res)
}

// havocCall: unknown callee. Results are arbitrary values of their types; the heap components in the
// callee's inferred mod-set are forgotten.
func (fr *Frame) havocCall(st *State, fn *ssa.Function, sig *types.Signature, args []Val, name string) Val {
	r := fr.run
	if fn != nil {
		mods := r.eng.modsetFunc(fn, map[*ssa.Function]bool{})
		if os.Getenv("GOCV_DEBUG") != "" && len(mods) > 0 {
			fmt.Fprintf(os.Stderr, "[havoc] %s in %s: %v\n", name, fr.fn.Name(), sortedKeys(mods))
		}
		for _, h := range sortedKeys(mods) {
			r.heapHavoc(st, h)
		}
	}
	// cells whose address is handed to an unknown function may be written by it
	for _, a := range args {
		if ad, ok := a.(*Addr); ok && ad.kind == aCell {
			nv := r.freshOf(st, "esc", ad.typ)
			r.store(st, ad, nv)
		}
	}
	nf := r.declare("frontier", SInt)
	r.assumeGlobal(app(">=", nf, st.frontier))
	st.frontier = nf
	short := name
	if i := strings.LastIndex(short, "/"); i >= 0 {
		short = short[i+1:]
	}
	return fr.freshResults(st, sig, "r_"+short)
}

// applyContract: requires are obligations of the caller, the mod-set is forgotten, ensures are assumed.
func (fr *Frame) applyContract(st *State, sp *FuncSpec, fn *ssa.Function, sig *types.Signature, args []Val, names []string, cname string) Val {
	r := fr.run
	r.assumed[sp.Name] = true
	binds := map[string]Val{}
	btypes := map[string]types.Type{}
	for i, n := range names {
		if i < len(args) {
			binds[n] = args[i]
		}
	}
	cx := &evalCtx{fr: fr, run: r, st: st, old: st, binds: binds, btypes: btypes}
	if p := r.eng.typesPkg(sp.Pkg); p != nil {
		cx.pkg = p
	} else if fn != nil && fn.Pkg != nil {
		cx.pkg = fn.Pkg.Pkg
	}
	short := shortFuncName(sp.Name)
	if fr.top {
		for i, c := range sp.Requires {
			f, err := cx.boolExpr(c.Expr)
			if err != nil {
				r.eng.bindError(sp, c, err)
				continue
			}
			r.oblige(st, "requires@call", short+"."+labelOr(c, i), c.Text, f)
		}
	}
	for i, c := range sp.TypeInvs {
		f, err := cx.boolExpr(c.Expr)
		if err != nil {
			r.eng.bindError(sp, c, err)
			continue
		}
		callerPkg := ""
		if fr.fn != nil && fr.fn.Pkg != nil {
			callerPkg = fr.fn.Pkg.Pkg.Path()
		} else if fr.fn != nil && fr.fn.Parent() != nil && fr.fn.Parent().Pkg != nil {
			callerPkg = fr.fn.Parent().Pkg.Pkg.Path()
		}
		if callerPkg == sp.Pkg {
			if fr.top {
				r.oblige(st, "typeinv@call", short+"."+labelOr(c, i), c.Text, f)
			}
		} else {
			// the invariant ranges over unexported state of the callee's package: it cannot be broken from here
			r.assume(st, f)
			r.assumed["data invariant of "+sp.Pkg+" assumed at the package boundary: "+c.Text] = true
		}
	}
	pre := st.clone()
	preLen := len(r.script)
	// forget what the callee may modify
	var mods map[string]bool
	if sp.HasMod {
		mods = r.eng.declaredMods(sp, cx)
	} else if fn != nil && !sp.Pure {
		mods = r.eng.modsetFunc(fn, map[*ssa.Function]bool{})
	}
	if os.Getenv("GOCV_DEBUG") != "" {
		fmt.Fprintf(os.Stderr, "[contract-havoc] %s in %s: %v\n", sp.Name, fr.fn.Name(), sortedKeys(mods))
	}
	refined := map[string][]string{} // heap name -> object expressions the modification is confined to
	declared := sp.Modifies
	if !sp.HasMod && len(sp.AlsoMods) > 0 && !sp.Pure {
		declared = sp.AlsoMods
		if mods == nil {
			mods = map[string]bool{}
		} else {
			cp := map[string]bool{}
			for k := range mods {
				cp[k] = true
			}
			mods = cp
		}
		for k := range r.eng.declaredMods(&FuncSpec{Name: sp.Name, Pkg: sp.Pkg, Modifies: sp.AlsoMods, HasMod: true}, nil) {
			mods[k] = true
		}
	}
	if sp.HasMod || len(declared) > 0 {
		for _, m := range declared {
			i := strings.Index(m, " of ")
			if i < 0 {
				continue
			}
			one := &FuncSpec{Name: sp.Name, Pkg: sp.Pkg, Modifies: []string{strings.TrimSpace(m[:i])}, HasMod: true}
			for h := range r.eng.declaredMods(one, nil) {
				refined[h] = append(refined[h], strings.TrimSpace(m[i+4:]))
			}
		}
	}
	for _, h := range sortedKeys(mods) {
		exprs, ok := refined[h]
		if !ok {
			r.heapHavoc(st, h)
			continue
		}
		// frame: only the named objects change in this heap component
		r.heapDeclare(h)
		cur := r.heapGet(st, h)
		okAll := true
		for _, ex := range exprs {
			se, err := parseSpecExpr(ex)
			if err != nil {
				okAll = false
				break
			}
			tv, err := cx.expr(se)
			if err != nil {
				r.eng.specErrors = append(r.eng.specErrors, fmt.Sprintf("%s: modifies ... of %s: %v", sp.Name, ex, err))
				okAll = false
				break
			}
			ref := tv.S
			if tv.Sort == SSlice {
				ref = app("s_arr", tv.S)
			}
			sort := r.heapSort[h]
			inner := strings.TrimSuffix(strings.TrimPrefix(strings.TrimPrefix(sort, "(Array Int "), "(Array Iface "), ")")
			nv := r.declare("modof", inner)
			cur = app("store", cur, ref, nv)
		}
		if okAll {
			r.heapSet(st, h, cur)
		} else {
			r.heapHavoc(st, h)
		}
	}
	if !sp.Pure {
		nf := r.declare("frontier", SInt)
		r.assumeGlobal(app(">=", nf, st.frontier))
		st.frontier = nf
	}
	res := fr.freshResults(st, sig, "r_"+short)
	if sp.Pure && sp.Trusted && fn != nil && fn.Pkg != nil && !r.eng.inModule(fn.Pkg.Pkg.Path()) && sig.Results().Len() == 1 && sig.Recv() == nil {
		// a trusted pure function of a dependency: its result is a function of its arguments (the same uninterpreted
		// function a contract that mentions the call evaluates to), not a fresh value per call
		var tvs []TV
		okArgs := true
		for i, a := range args {
			if i >= sig.Params().Len() {
				okArgs = false
				break
			}
			tvs = append(tvs, r.toTV(st, a, sig.Params().At(i).Type()))
		}
		if okArgs {
			if tv, err := cx.pureByContract(fn, sp, tvs); err == nil {
				res = tv
			}
		}
	}
	if fr.overrideRes != nil {
		res = fr.overrideRes
		fr.overrideRes = nil
	}
	bindResults(binds, sig, res)
	cx2 := &evalCtx{fr: fr, run: r, st: st, old: pre, binds: binds, btypes: btypes, pkg: cx.pkg}
	for _, c := range sp.Ensures {
		f, err := cx2.boolExpr(c.Expr)
		if err != nil {
			// a clause that mentions the callee's local variables says nothing to callers; it is checked (and any
			// binding problem reported) where the callee itself is verified
			if sp.Trusted || sp.NoVerify {
				r.eng.bindError(sp, c, err)
			}
			continue
		}
		if c.Assumed {
			r.assumed["postulate of "+sp.Name+" (used by callers, not checked against the body): "+c.Text] = true
		}
		r.assume(st, f)
	}
	if fr.top && len(sp.Ensures) > 0 {
		// vacuity guard: what the callee's contract promises must be consistent with what is known here
		before := &Obligation{Name: r.oblName(r.spec.Name + ":cover:before." + short), Kind: "cover", Func: r.spec.Name, Text: "path to the call of " + short + " is feasible",
			prefixLen: preLen, goal: pre.reach, isCover: true, run: r}
		after := &Obligation{Name: r.oblName(r.spec.Name + ":cover:contract." + short), Kind: "cover", Func: r.spec.Name, Text: "the contract of " + short + " is consistent with the facts at its call site",
			prefixLen: len(r.script), goal: st.reach, isCover: true, run: r, coverPre: before, mustHold: true}
		r.obls = append(r.obls, after)
	}
	return res
}

func bindResults(binds map[string]Val, sig *types.Signature, res Val) {
	n := sig.Results().Len()
	if n == 0 {
		return
	}
	var vals []Val
	if n == 1 {
		vals = []Val{res}
		binds["result"] = res
	} else {
		vals = res.(Tuple)
	}
	for i := 0; i < n; i++ {
		binds[fmt.Sprintf("result%d", i)] = vals[i]
		if nm := sig.Results().At(i).Name(); nm != "" && nm != "_" {
			if _, exists := binds[nm]; !exists {
				binds[nm] = vals[i]
			}
		}
	}
}

func shortFuncName(full string) string {
	// "(*a/b/c.T).M" -> "T.M" ; "a/b/c.F" -> "F"
	s := full
	if strings.HasPrefix(s, "(") {
		i := strings.Index(s, ")")
		recv := s[1:i]
		recv = strings.TrimPrefix(recv, "*")
		if j := strings.LastIndex(recv, "."); j >= 0 {
			recv = recv[j+1:]
		}
		return recv + s[i+1:]
	}
	if j := strings.LastIndex(s, "/"); j >= 0 {
		s = s[j+1:]
	}
	if j := strings.Index(s, "."); j >= 0 {
		s = s[j+1:]
	}
	return s
}

// ---------------------------------------------------------------------------------------------
// builtins

func (fr *Frame) builtin(st *State, b *ssa.Builtin, c *ssa.CallCommon, v ssa.Value) Val {
	r := fr.run
	s := r.eng.sorts
	it := types.Typ[types.Int]
	switch b.Name() {
	case "len", "cap":
		a := fr.tv(st, c.Args[0])
		switch t := c.Args[0].Type().Underlying().(type) {
		case *types.Slice:
			if a.Sort == SSlice {
				return TV{app("s_"+b.Name(), a.S), SInt, it}
			}
			return TV{ite(eq(a.S, "0"), "0", app("klen", a.S)), SInt, it}
		case *types.Basic:
			return TV{app("strlen", a.S), SInt, it}
		case *types.Map:
			mi := r.mapHeaps(st, t)
			ln := r.define("maplen", SInt, ite(eq(a.S, "0"), "0", app("select", mi.ln, a.S)))
			r.assumeGlobal(app(">=", ln, "0"))
			// cardinality: a map that holds a key has positive length
			q := r.fresh("qm")
			dm := app("select", mi.dom, a.S)
			r.assume(st, fmt.Sprintf("(forall ((%s %s)) (! (=> (and (not (= %s 0)) (select %s %s)) (> %s 0)) :pattern ((select %s %s))))", q, mi.ksort, a.S, dm, q, ln, dm, q))
			// ... and a map of positive length holds some key (witness)
			wk := r.freshOf(st, "mapwit", t.Key()).S
			r.assume(st, implies(app(">", ln, "0"), and(not(eq(a.S, "0")), app("select", dm, wk))))
			return TV{ln, SInt, it}
		case *types.Array:
			return TV{num(t.Len()), SInt, it}
		case *types.Pointer:
			if at, ok := t.Elem().Underlying().(*types.Array); ok {
				return TV{num(at.Len()), SInt, it}
			}
		case *types.Chan:
			n := r.freshOf(st, "chanlen", it)
			r.assumeGlobal(app(">=", n.S, "0"))
			return n
		}
		return r.freshOf(st, "len", it)
	case "append":
		return fr.appendOp(st, c, v)
	case "copy":
		return fr.copyOp(st, c)
	case "delete":
		mt := c.Args[0].Type().Underlying().(*types.Map)
		mi := r.mapHeaps(st, mt)
		m, k := fr.tv(st, c.Args[0]).S, fr.tv(st, c.Args[1]).S
		was := app("select", app("select", mi.dom, m), k)
		r.heapSet(st, mi.lenName, app("store", mi.ln, m, app("-", app("select", mi.ln, m), ite(was, "1", "0"))))
		r.heapSet(st, mi.domName, app("store", mi.dom, m, app("store", app("select", mi.dom, m), k, "false")))
		return nil
	case "min", "max":
		op := "<="
		if b.Name() == "max" {
			op = ">="
		}
		cur := fr.tv(st, c.Args[0])
		for _, a := range c.Args[1:] {
			x := fr.tv(st, a)
			cur = TV{ite(app(op, cur.S, x.S), cur.S, x.S), cur.Sort, cur.T}
		}
		return cur
	case "print", "println", "close", "recover":
		if v != nil && v.Type() != nil {
			if tup, ok := v.Type().(*types.Tuple); ok && tup.Len() == 0 {
				return nil
			}
			if b.Name() == "recover" {
				return TV{"(mk_iface 0 0)", SIface, v.Type()}
			}
		}
		return nil
	case "clear":
		if mt, ok := c.Args[0].Type().Underlying().(*types.Map); ok {
			mi := r.mapHeaps(st, mt)
			m := fr.tv(st, c.Args[0]).S
			r.heapSet(st, mi.lenName, app("store", mi.ln, m, "0"))
			r.heapSet(st, mi.domName, app("store", mi.dom, m, fmt.Sprintf("((as const (Array %s Bool)) false)", mi.ksort)))
		}
		return nil
	}
	_ = s
	r.warn("%s: builtin %s havocked", fr.fn.Name(), b.Name())
	if v != nil {
		return r.freshOf(st, "builtin", v.Type())
	}
	return nil
}

// appendOp: the result is a fresh array holding the concatenation (aliasing with the source when capacity
// suffices is not modelled, DESIGN §7.5).
func (fr *Frame) appendOp(st *State, c *ssa.CallCommon, v ssa.Value) Val {
	r := fr.run
	s := r.eng.sorts
	rt := c.Args[0].Type()
	if s.keyMode && isByteSlice(rt) {
		a := fr.tv(st, c.Args[0])
		// append(k, 0) is the successor key; anything else is opaque
		if len(c.Args) == 2 {
			if sl, ok := c.Args[1].(*ssa.Slice); ok {
				if al, ok := sl.X.(*ssa.Alloc); ok {
					if at, ok := al.Type().(*types.Pointer).Elem().Underlying().(*types.Array); ok && at.Len() == 1 {
						// single appended byte: look for the store of constant 0
						for _, ref := range *al.Referrers() {
							if ia, ok := ref.(*ssa.IndexAddr); ok {
								for _, r2 := range *ia.Referrers() {
									if stt, ok := r2.(*ssa.Store); ok {
										if cst, ok := constOf(stt.Val); ok && cst.Sign() == 0 {
											return TV{app("+", a.S, "1"), SInt, rt}
										}
									}
								}
							}
						}
					}
				}
			}
			b := fr.tv(st, c.Args[1])
			if b.Sort == SInt {
				// append(a, k...) is the concatenation of two keys
				return TV{r.define("appkey", SInt, app("kcat", a.S, b.S)), SInt, rt}
			}
		}
		return r.freshOf(st, "appkey", rt)
	}
	et := rt.Underlying().(*types.Slice).Elem()
	a := fr.tv(st, c.Args[0])
	b := fr.tv(st, c.Args[1])
	if isString(c.Args[1].Type()) {
		res := r.freshOf(st, "app", rt)
		r.assume(st, eq(app("s_len", res.S), app("+", app("s_len", a.S), app("strlen", b.S))))
		return res
	}
	a.S = r.constOf("appa", SSlice, a.S)
	b.S = r.constOf("appb", SSlice, b.S)
	la, lb := app("s_len", a.S), app("s_len", b.S)
	ref := r.alloc(st, "append")
	newLen := r.define("applen", SInt, app("+", la, lb))
	newCap := r.declare("appcap", SInt)
	r.assumeGlobal(app(">=", newCap, newLen))
	res := TV{app("mk_slice", ref, "0", newLen, newCap), SSlice, rt}
	if isAggregate(et) {
		// elements are objects: copy field by field through quantified frame conditions
		fr.copyAggregateElems(st, et, ref, "0", a.S, la)
		fr.copyAggregateElems(st, et, ref, la, b.S, lb)
		return res
	}
	name, h := r.elemHeap(st, et)
	es := s.sortOf(et)
	asort := "(Array Int " + es + ")"
	// contents of the destination before the appended part: the source array itself when the slice starts
	// at offset 0 (the usual case for slices grown by append), a shifted copy otherwise
	base := app("select", h, app("s_arr", a.S))
	arr0 := r.declare("apparr0", asort)
	r.assume(st, implies(eq(app("s_off", a.S), "0"), eq(arr0, base)))
	q := r.fresh("qa")
	r.assumeBGIn(st, fmt.Sprintf("(forall ((%s Int)) (! (=> (and (<= 0 %s) (< %s %s)) (= (select %s %s) (select %s (+ (s_off %s) %s)))) :pattern ((select %s %s))))",
		q, q, q, la, arr0, q, base, a.S, q, arr0, q))
	var arr string
	if n, ok := literalSliceLen(c.Args[1]); ok && n <= 32 {
		// appended elements come from a small literal array: plain stores
		arr = arr0
		for j := 0; j < n; j++ {
			arr = app("store", arr, add(la, num(int64(j))), app("select", app("select", h, app("s_arr", b.S)), add(app("s_off", b.S), num(int64(j)))))
		}
		arr = r.define("apparr", asort, arr)
		// bridge for E-matching: a read of the old contents names the same element of the grown array (lets an
		// existential witness found in the old slice be reused for the new one)
		q3 := r.fresh("qc")
		r.assumeBGIn(st, fmt.Sprintf("(forall ((%s Int)) (! (=> (and (<= 0 %s) (< %s %s)) (= (select %s %s) (select %s %s))) :pattern ((select %s %s))))",
			q3, q3, q3, la, arr, q3, arr0, q3, arr0, q3))
	} else {
		arr = r.declare("apparr", asort)
		q2 := r.fresh("qb")
		r.assumeBGIn(st, fmt.Sprintf("(forall ((%s Int)) (! (= (select %s %s) (ite (and (<= %s %s) (< %s %s)) (select (select %s (s_arr %s)) (+ (s_off %s) (- %s %s))) (select %s %s))) :pattern ((select %s %s))))",
			q2, arr, q2, la, q2, q2, newLen, h, b.S, b.S, q2, la, arr0, q2, arr, q2))
	}
	freshHeap := app("store", h, ref, arr)
	if n, ok := literalSliceLen(c.Args[1]); ok && n <= 32 && !zeroOffsetSlice(c.Args[0], map[ssa.Value]bool{}) {
		// The base slice is not one this function built itself (it is a parameter, a field, or a re-slice such as x[:0]):
		// when its capacity suffices Go appends IN PLACE, writing into the array the base shares with whoever else holds
		// it. Both outcomes are modelled.
		inplace := r.define("appinplace", SBool, app("<=", newLen, app("s_cap", a.S)))
		ip := app("select", h, app("s_arr", a.S))
		for j := 0; j < n; j++ {
			ip = app("store", ip, add(app("s_off", a.S), add(la, num(int64(j)))), app("select", app("select", h, app("s_arr", b.S)), add(app("s_off", b.S), num(int64(j)))))
		}
		ipHeap := app("store", h, app("s_arr", a.S), ip)
		ipRes := app("mk_slice", app("s_arr", a.S), app("s_off", a.S), newLen, app("s_cap", a.S))
		r.heapSet(st, name, r.constOf(name, r.heapSort[name], ite(inplace, ipHeap, freshHeap)))
		res.S = r.constOf("appres", SSlice, ite(inplace, ipRes, res.S))
		return res
	}
	r.heapSet(st, name, freshHeap)
	return res
}

// literalSliceLen: the argument is a[:] of a local array literal of known length.
func literalSliceLen(v ssa.Value) (int, bool) {
	sl, ok := v.(*ssa.Slice)
	if !ok || sl.Low != nil || sl.High != nil || sl.Max != nil {
		return 0, false
	}
	al, ok := sl.X.(*ssa.Alloc)
	if !ok {
		return 0, false
	}
	at, ok := al.Type().(*types.Pointer).Elem().Underlying().(*types.Array)
	if !ok {
		return 0, false
	}
	return int(at.Len()), true
}

func (fr *Frame) copyAggregateElems(st *State, et types.Type, dstArr, dstOff, src, n string) {
	r := fr.run
	stt, ok := et.Underlying().(*types.Struct)
	if !ok {
		r.warn("append of array elements not modelled")
		return
	}
	si := r.eng.sorts.structOf(et)
	for i := 0; i < stt.NumFields(); i++ {
		ft := stt.Field(i).Type()
		if isAggregate(ft) {
			r.warn("append: nested aggregate field %s.%s not copied", si.tname, stt.Field(i).Name())
			continue
		}
		name, h := r.fieldHeap(st, si, i)
		nh := r.declare(name, r.heapSort[name])
		q := r.fresh("qe")
		// copied elements
		// quantify over the absolute destination index k (no arithmetic in the trigger): element k of the destination is
		// element k - dstOff of the source slice
		r.assumeBGIn(st, fmt.Sprintf("(forall ((%s Int)) (! (=> (and (<= %s %s) (< %s (+ %s %s))) (= (select %s (elemref %s %s)) (select %s (elemref (s_arr %s) (+ (s_off %s) (- %s %s)))))) :pattern ((select %s (elemref %s %s)))))",
			q, dstOff, q, q, dstOff, n, nh, dstArr, q, h, src, src, q, dstOff, nh, dstArr, q))
		// frame: everything that is not an element of the destination array keeps its value
		p := r.fresh("qp")
		r.assumeBGIn(st, fmt.Sprintf("(forall ((%s Int)) (! (=> (not (and (= (refkind %s) 1) (= (elem_arr %s) %s))) (= (select %s %s) (select %s %s))) :pattern ((select %s %s))))",
			p, p, p, dstArr, nh, p, h, p, nh, p))
		r.heapWF(nh, r.heapSort[name], ft, st.frontier)
		st.heaps[name] = nh
	}
}

func (fr *Frame) copyOp(st *State, c *ssa.CallCommon) Val {
	r := fr.run
	s := r.eng.sorts
	it := types.Typ[types.Int]
	dt := c.Args[0].Type()
	if s.keyMode && isByteSlice(dt) {
		// clone idiom: x := make([]byte, len(y)); copy(x, y) - x is a fresh, so far unconstrained key; from here on it is y.
		// Also with x a field: o.f = make([]byte, len(y)); copy(o.f, y).
		if mk := clonedMake(c); mk != nil {
			r.assume(st, eq(fr.tv(st, mk).S, fr.tv(st, c.Args[1]).S))
		}
		return r.freshOf(st, "copyn", it)
	}
	et := dt.Underlying().(*types.Slice).Elem()
	d := fr.tv(st, c.Args[0])
	sv := fr.tv(st, c.Args[1])
	var ls string
	if isString(c.Args[1].Type()) {
		ls = app("strlen", sv.S)
	} else {
		ls = app("s_len", sv.S)
	}
	n := r.define("copyn", SInt, ite(app("<=", app("s_len", d.S), ls), app("s_len", d.S), ls))
	if isAggregate(et) || isString(c.Args[1].Type()) {
		if !isAggregate(et) {
			name, _ := r.elemHeap(st, et)
			r.heapHavoc(st, name)
		} else {
			r.warn("copy of aggregate elements havocs nothing (not modelled)")
		}
		return TV{n, SInt, it}
	}
	name, h := r.elemHeap(st, et)
	es := s.sortOf(et)
	d.S = r.constOf("cpd", SSlice, d.S)
	sv.S = r.constOf("cps", SSlice, sv.S)
	arr := r.declare("copyarr", "(Array Int "+es+")")
	q := r.fresh("qc")
	doff, soff := app("s_off", d.S), app("s_off", sv.S)
	oldD := app("select", h, app("s_arr", d.S))
	oldS := app("select", h, app("s_arr", sv.S))
	r.assumeBGIn(st, fmt.Sprintf("(forall ((%s Int)) (! (= (select %s %s) (ite (and (<= %s %s) (< %s (+ %s %s))) (select %s (+ %s (- %s %s))) (select %s %s))) :pattern ((select %s %s))))",
		q, arr, q, doff, q, q, doff, n, oldS, soff, q, doff, oldD, q, arr, q))
	r.heapSet(st, name, app("store", h, app("s_arr", d.S), arr))
	return TV{n, SInt, it}
}

// ---------------------------------------------------------------------------------------------
// defers, go, send, select

func (fr *Frame) runDefers(st *State) {
	r := fr.run
	ds := st.defers
	st.defers = nil
	for i := len(ds) - 1; i >= 0; i-- {
		d := ds[i]
		if d.guard == "false" {
			continue
		}
		// run the deferred call on a copy restricted to the guard, then merge
		taken := st.clone()
		taken.reach = r.define("reach", SBool, and(st.reach, d.guard))
		skipped := st.clone()
		skipped.reach = r.define("reach", SBool, and(st.reach, not(d.guard)))
		fr.deferredCall(taken, d)
		m := r.mergeStates([]*State{taken, skipped})
		*st = *m
	}
}

func (fr *Frame) deferredCall(st *State, d deferEntry) {
	r := fr.run
	c := &d.instr.Call
	sig := c.Signature()
	fr.siteAsserts(st, c, "defer")
	if c.IsInvoke() {
		name := fmt.Sprintf("(%s).%s", types.TypeString(c.Value.Type(), nil), c.Method.Name())
		args := append([]Val{d.fnv}, d.args...)
		if sp := r.eng.specs.Funcs[name]; sp != nil {
			fr.applyContract(st, sp, nil, sig, args, recvAndParams(c.Method.Type().(*types.Signature), "recv"), name)
			return
		}
		if _, ok := fr.nativeInvoke(st, c, args); ok {
			return
		}
		fr.havocCall(st, nil, sig, args, name)
		return
	}
	cl, ok := d.fnv.(*Closure)
	if !ok {
		if _, isB := d.fnv.(*ssa.Builtin); isB {
			return
		}
		fr.havocCall(st, nil, sig, d.args, "deferred")
		return
	}
	fn := cl.fn
	if _, ok := fr.nativeCallVals(st, fn, d.args, sig); ok {
		return
	}
	if sp := r.eng.specs.Funcs[fn.String()]; sp != nil && !sp.Inline {
		pn := paramNames(fn)
		full := d.args
		for i, fvv := range fn.FreeVars {
			if i < len(cl.binds) {
				pn = append(pn, fvv.Name())
				full = append(full, cl.binds[i])
			}
		}
		fr.applyContract(st, sp, fn, sig, full, pn, fn.String())
		return
	}
	if fr.canInlineDeferred(fn) {
		fr.inlineCall(st, fn, cl, d.args)
		return
	}
	// havoc: mod-set plus the captured cells the closure may write (directly, or by handing their address on)
	for i, b := range cl.binds {
		if ad, ok := b.(*Addr); ok && ad.kind == aCell {
			if i < len(fn.FreeVars) && !freeVarMayBeWritten(fn.FreeVars[i]) {
				continue
			}
			r.store(st, ad, r.freshOf(st, "dfc", ad.typ))
		}
	}
	r.abstracted[fn.String()] = true
	fr.havocCall(st, fn, sig, d.args, fn.String())
}

func (fr *Frame) canInlineDeferred(fn *ssa.Function) bool {
	return fr.canInline(fn)
}

func (fr *Frame) siteSend(st *State, x *ssa.Send) {
	for _, n := range fr.sourceNames(st, x.Chan) {
		fr.siteGeneric(st, "send", n, map[string]Val{"sent": fr.val(st, x.X)})
	}
}

// sourceNames: the source-level variable names currently bound to the value of v (plus its SSA name).
func (fr *Frame) sourceNames(st *State, v ssa.Value) []string {
	out := []string{v.Name()}
	if u, ok := v.(*ssa.UnOp); ok {
		// value loaded from a variable that lives in memory (captured by a closure): named after that variable
		if al, ok := u.X.(*ssa.Alloc); ok && identRe.MatchString(al.Comment) {
			out = append(out, al.Comment)
		}
		if fv, ok := u.X.(*ssa.FreeVar); ok {
			out = append(out, fv.Name())
		}
	}
	tv, ok := fr.val(st, v).(TV)
	if !ok {
		return out
	}
	for _, name := range sortedKeys(st.vars) {
		if strings.HasPrefix(name, "&") || strings.HasPrefix(name, "iter#") {
			continue
		}
		if x, ok := st.vars[name].(TV); ok && x.S == tv.S {
			out = append(out, name)
		}
	}
	return out
}

func (fr *Frame) siteRecv(st *State, x *ssa.UnOp, v TV) {
	// ghost: number of values taken from each channel by this thread (what `recvd(ch)` reads)
	if ch, ok := fr.val(st, x.X).(TV); ok && ch.Sort == SInt {
		fr.run.countRecv(st, ch.S, "1")
	}
}

func (r *Run) countRecv(st *State, ch string, by string) {
	name := r.eng.regHeap("GH_recv", "(Array Int Int)", types.Typ[types.Int])
	h := r.heapGet(st, name)
	r.heapSet(st, name, app("store", h, ch, app("+", app("select", h, ch), by)))
}

func (fr *Frame) selectOp(st *State, x *ssa.Select) {
	r := fr.run
	// result tuple: (index int, recvOk bool, recv values...)
	tup := x.Type().(*types.Tuple)
	out := make(Tuple, tup.Len())
	idx := r.freshOf(st, "selidx", types.Typ[types.Int])
	lo := "0"
	if !x.Blocking {
		lo = "(- 1)"
	}
	r.assumeGlobal(and(app("<=", lo, idx.S), app("<", idx.S, num(int64(len(x.States))))))
	out[0] = idx
	out[1] = TV{r.declare("selok", SBool), SBool, types.Typ[types.Bool]}
	for i := 2; i < tup.Len(); i++ {
		out[i] = r.freshOf(st, "selrecv", tup.At(i).Type())
	}
	st.env[x] = out
	// receiving from ctx.Done(): the context has ended
	for i, sc := range x.States {
		if sc.Dir != types.RecvOnly || fr.doneChans == nil {
			continue
		}
		if ch, ok := fr.val(st, sc.Chan).(TV); ok {
			if ctx, ok := fr.doneChans[ch.S]; ok {
				name := r.eng.regHeap("GH_ctxdone", "(Array Iface Bool)", nil)
				h := r.heapGet(st, name)
				r.heapSet(st, name, app("store", h, ctx, or(app("select", h, ctx), eq(idx.S, num(int64(i))))))
			}
		}
	}
	// a receive case that fires takes one value from its channel
	for i, sc := range x.States {
		if sc.Dir == types.RecvOnly {
			if ch, ok := fr.val(st, sc.Chan).(TV); ok && ch.Sort == SInt {
				r.countRecv(st, ch.S, ite(eq(idx.S, num(int64(i))), "1", "0"))
			}
		}
	}
	// a send case of the select is a send site
	for _, sc := range x.States {
		if sc.Dir == types.SendOnly && sc.Send != nil {
			for _, n := range fr.sourceNames(st, sc.Chan) {
				fr.siteGeneric(st, "send", n, map[string]Val{"sent": fr.val(st, sc.Send)})
			}
		}
	}
}

// ---------------------------------------------------------------------------------------------
// site assertions: `at call(callee[#n]) assert P`

func (fr *Frame) siteAsserts(st *State, c *ssa.CallCommon, kind string) {
	if !fr.top || fr.spec == nil || len(fr.spec.Sites) == 0 {
		return
	}
	name := calleeName(c)
	fr.callCount[name]++
	ord := fr.callCount[name]
	for _, ss := range fr.spec.Sites {
		if ss.Kind != "call" || ss.Callee != name || (ss.Ordinal != 0 && ss.Ordinal != ord) {
			continue
		}
		if ss.ArgName != "" {
			ok := false
			if len(c.Args) > 0 {
				for _, n := range fr.sourceNames(st, c.Args[0]) {
					if n == ss.ArgName {
						ok = true
					}
				}
			}
			if !ok {
				continue
			}
		}
		ss.matched++
		cx := fr.newCtx(st, fr.curRec, true)
		cx.binds = map[string]Val{}
		for k, v := range fr.params {
			cx.binds[k] = v
		}
		// arguments are numbered as the callee declares its parameters (the receiver is `recv`); arg_<name> also works
		args := fr.argVals(st, c)
		var sig *types.Signature
		if c.IsInvoke() {
			cx.binds["recv"] = fr.val(st, c.Value)
			sig, _ = c.Method.Type().(*types.Signature)
		} else if f := c.StaticCallee(); f != nil && f.Signature.Recv() != nil && len(args) > 0 {
			cx.binds["recv"] = args[0]
			args = args[1:]
			sig = f.Signature
		} else if f := c.StaticCallee(); f != nil {
			sig = f.Signature
		}
		for i, a := range args {
			cx.binds[fmt.Sprintf("arg%d", i)] = a
			if sig != nil && i < sig.Params().Len() {
				if n := sig.Params().At(i).Name(); n != "" && n != "_" {
					cx.binds["arg_"+n] = a
				}
			}
		}
		f, err := cx.boolExpr(ss.Clause.Expr)
		if err != nil {
			fr.run.eng.bindError(fr.spec, ss.Clause, err)
			continue
		}
		label := ss.Clause.Label
		if label == "" {
			label = fmt.Sprintf("%s", name)
		}
		fr.run.oblige(st, "assert@call", label, ss.Clause.Text, f)
		fr.run.assume(st, f) // proved here, usable afterwards
	}
}

func (fr *Frame) siteGeneric(st *State, kind, name string, extra map[string]Val) {
	if !fr.top || fr.spec == nil {
		return
	}
	for _, ss := range fr.spec.Sites {
		if ss.Kind != kind || ss.Callee != name {
			continue
		}
		ss.matched++
		cx := fr.newCtx(st, fr.curRec, true)
		cx.binds = map[string]Val{}
		for k, v := range fr.params {
			cx.binds[k] = v
		}
		for k, v := range extra {
			cx.binds[k] = v
		}
		cx.undefLocals = kind == "return" // a local not defined on this return path is arbitrary there
		f, err := cx.boolExpr(ss.Clause.Expr)
		if err != nil {
			fr.run.eng.bindError(fr.spec, ss.Clause, err)
			continue
		}
		lbl := labelOr(ss.Clause, 0)
		if kind == "return" {
			lbl = fmt.Sprintf("%s.b%d", lbl, fr.retBlock) // name the return instruction by its SSA block
		}
		fr.run.oblige(st, "assert@"+kind, lbl, ss.Clause.Text, f)
		fr.run.assume(st, f) // proved here, usable afterwards
	}
}

// ---------------------------------------------------------------------------------------------
// field-transition invariants: every store to T.f in the package must satisfy the two-state predicate

func (fr *Frame) checkTransition(st *State, in ssa.Instruction, a *Addr, nv TV) {
	if !fr.top || a.kind != aField {
		return
	}
	r := fr.run
	for _, ft := range r.eng.specs.Transitions {
		if !fr.transitionApplies(ft, a.si, a.field) {
			continue
		}
		if r.eng.curProp != "" && ft.Clause.Label != "" && ft.Clause.Label != r.eng.curProp {
			continue
		}
		// stores into an object allocated by this function before it escapes are exempt
		oldv := r.load(st, a)
		cx := fr.newCtx(st, nil, true)
		cx.binds = map[string]Val{}
		for k, v := range fr.params {
			cx.binds[k] = v
		}
		cx.binds["old"] = oldv
		cx.binds["new"] = nv
		cx.binds["self"] = TV{a.base, SInt, types.NewPointer(fr.namedStruct(a.si))}
		f, err := cx.boolExpr(ft.Clause.Expr)
		if err != nil {
			r.eng.bindError(fr.spec, ft.Clause, err)
			continue
		}
		fresh := app(">=", a.base, fr.entry.frontier) // allocated during this call
		r.oblige(st, "field-transition", ft.Type+"."+ft.Field, ft.Clause.Text, or(fresh, f))
	}
}

func (fr *Frame) checkTransitionsStruct(st *State, in ssa.Instruction, ref string, t types.Type, v TV) {
	if !fr.top || !isStruct(t) || len(fr.run.eng.specs.Transitions) == 0 {
		return
	}
	si := fr.run.eng.sorts.structOf(t)
	for i := 0; i < si.st.NumFields(); i++ {
		ft := si.st.Field(i).Type()
		if isAggregate(ft) {
			continue
		}
		a := &Addr{kind: aField, base: ref, si: si, field: i, typ: ft}
		fr.checkTransition(st, in, a, TV{app(si.fields[i], v.S), fr.run.eng.sorts.sortOf(ft), ft})
	}
}

func (fr *Frame) namedStruct(si *structInfo) types.Type {
	for t, s := range fr.run.eng.sorts.byType {
		if s == si {
			if _, ok := t.(*types.Named); ok {
				return t
			}
		}
	}
	return si.st
}

func (fr *Frame) transitionApplies(ft *FieldTransition, si *structInfo, field int) bool {
	if si.st.Field(field).Name() != ft.Field {
		return false
	}
	pk := ""
	if fr.fn.Pkg != nil {
		pk = fr.fn.Pkg.Pkg.Path()
	} else if fr.fn.Parent() != nil && fr.fn.Parent().Pkg != nil {
		pk = fr.fn.Parent().Pkg.Pkg.Path()
	}
	if pk != ft.Pkg {
		return false
	}
	// type name match (package-local name)
	return strings.HasSuffix(si.tname, "_"+ft.Type) || si.tname == ft.Type
}

// checkGuard: `guarded T.f by M`: every access to T.f happens with the mutex T.M held.
func (fr *Frame) checkGuard(st *State, a *Addr, what string) {
	if !fr.top || a.kind != aField || len(fr.run.eng.specs.Guards) == 0 {
		return
	}
	r := fr.run
	pk := ""
	if fr.fn.Pkg != nil {
		pk = fr.fn.Pkg.Pkg.Path()
	} else if fr.fn.Parent() != nil && fr.fn.Parent().Pkg != nil {
		pk = fr.fn.Parent().Pkg.Pkg.Path()
	}
	for _, g := range r.eng.specs.Guards {
		if g.Pkg != pk || (r.eng.curProp != "" && g.Prop != r.eng.curProp) || a.si.st.Field(a.field).Name() != g.Field {
			continue
		}
		if !(strings.HasSuffix(a.si.tname, "_"+g.Type) || a.si.tname == g.Type) {
			continue
		}
		mi := -1
		for i := 0; i < a.si.st.NumFields(); i++ {
			if a.si.st.Field(i).Name() == g.Mutex {
				mi = i
			}
		}
		if mi < 0 {
			r.eng.specErrors = append(r.eng.specErrors, "guarded: no field "+g.Mutex+" in "+g.Type)
			continue
		}
		ref := app(r.eng.sorts.subFunc(a.si, mi), a.base)
		name := r.eng.regHeap("GH_held", "(Array Int Int)", types.Typ[types.Int])
		h := r.heapGet(st, name)
		fresh := app(">=", a.base, fr.entry.frontier)
		r.oblige(st, "guarded-by", g.Type+"."+g.Field+"."+what, g.Type+"."+g.Field+" is accessed only with "+g.Mutex+" held", or(fresh, not(eq(app("select", h, ref), "0"))))
	}
}

// iterateCall: the iteration schema for library functions that call a function argument repeatedly
// (btree Ascend*/Descend*, sync.Map.Range, ...): "for * { if !f(item*) { break } }". Driven by a site clause
// `at call(X) iterate INV given G`.
func (fr *Frame) iterateCall(st *State, fn *ssa.Function, c *ssa.CallCommon, args []Val) (Val, bool) {
	if !fr.top || fr.spec == nil {
		return nil, false
	}
	name := calleeName(c)
	var sites []*SiteSpec
	for _, ss := range fr.spec.Sites {
		if ss.Kind == "iter" && ss.Callee == name {
			sites = append(sites, ss)
			ss.matched++
		}
	}
	if len(sites) == 0 {
		return nil, false
	}
	site := sites[0]
	r := fr.run
	// the callback: last argument that is a closure with known code
	var clo *Closure
	for _, a := range args {
		if cl, ok := a.(*Closure); ok {
			clo = cl
		}
	}
	if clo == nil {
		r.eng.bindError(fr.spec, site.Clause, fmt.Errorf("no callback with known code at call(%s)", name))
		return nil, true
	}
	eval := func(s *State, cl *Clause, extra map[string]Val) (string, error) {
		cx := fr.newCtx(s, fr.curRec, true)
		cx.binds = map[string]Val{}
		for k, v := range fr.params {
			cx.binds[k] = v
		}
		for k, v := range extra {
			cx.binds[k] = v
		}
		return cx.boolExpr(cl.Expr)
	}
	// 1. invariant holds before the iteration
	for i, ss := range sites {
		if f, err := eval(st, ss.Clause, nil); err == nil {
			r.oblige(st, "iterate-init", name+"."+labelOr(ss.Clause, i), ss.Clause.Text, f)
		} else {
			r.eng.bindError(fr.spec, ss.Clause, err)
			return nil, true
		}
	}
	// 2. forget everything the callback may write (its own captured variables cell by cell), keep the invariant
	fvw, mods := r.eng.closureWrites(clo.fn)
	for _, h := range sortedKeys(mods) {
		r.heapHavoc(st, h)
	}
	for i := range clo.fn.FreeVars {
		if !fvw[i] || i >= len(clo.binds) {
			continue
		}
		switch b := clo.binds[i].(type) {
		case *Addr:
			r.store(st, b, r.freshOf(st, "itv_"+clo.fn.FreeVars[i].Name(), b.typ))
		case TV:
			if pt, ok := b.T.Underlying().(*types.Pointer); ok {
				r.storeAt(st, b.S, pt.Elem(), r.freshOf(st, "itv_"+clo.fn.FreeVars[i].Name(), pt.Elem()))
			}
		}
	}
	nf := r.declare("frontier", SInt)
	r.assumeGlobal(app(">=", nf, st.frontier))
	st.frontier = nf
	for _, ss := range sites {
		if f, err := eval(st, ss.Clause, nil); err == nil {
			r.assume(st, f)
		}
	}
	// 3. one arbitrary callback invocation preserves the invariant
	body := st.clone()
	var cargs []Val
	extra := map[string]Val{}
	for i, p := range clo.fn.Params {
		v := r.freshOf(body, "item_"+p.Name(), p.Type())
		cargs = append(cargs, v)
		extra[fmt.Sprintf("item%d", i)] = v
	}
	for _, ss := range sites {
		if ss.Given == nil {
			continue
		}
		if g, err := eval(body, ss.Given, extra); err == nil {
			r.assume(body, g)
			r.assumed["callback arguments of "+name+": "+ss.Given.Text] = true
		} else {
			r.eng.bindError(fr.spec, ss.Given, err)
		}
	}
	fr.inlineCall(body, clo.fn, clo, cargs)
	if !body.dead {
		for i, ss := range sites {
			if f, err := eval(body, ss.Clause, nil); err == nil {
				r.oblige(body, "iterate-pres", name+"."+labelOr(ss.Clause, i), ss.Clause.Text, f)
			}
		}
	}
	r.assumed["iteration schema for "+fn.String()+" (calls its function argument any number of times, nothing else)"] = true
	return fr.freshResults(st, c.Signature(), "r_"+name), true
}

// clonedMake recognises the clone idiom at a copy(dst, src) of byte slices and returns the MakeSlice that made dst:
// dst is the made value itself, or a load of the location it was stored to just before (same block, nothing but address
// computations, loads and len() in between), and it was made with length len(src).
func clonedMake(c *ssa.CallCommon) *ssa.MakeSlice {
	if len(c.Args) != 2 || !isByteSlice(c.Args[1].Type()) {
		return nil
	}
	lenOfSrc := func(mk *ssa.MakeSlice) bool {
		ln, ok := mk.Len.(*ssa.Call)
		if !ok {
			return false
		}
		b, ok := ln.Call.Value.(*ssa.Builtin)
		return ok && b.Name() == "len" && ln.Call.Args[0] == c.Args[1]
	}
	if mk, ok := c.Args[0].(*ssa.MakeSlice); ok {
		if lenOfSrc(mk) && cloneOnly(mk) {
			return mk
		}
		return nil
	}
	ld, ok := c.Args[0].(*ssa.UnOp)
	if !ok || ld.Op != token.MUL {
		return nil
	}
	// walk back from the load to the store of a MakeSlice into the same location
	blk := ld.Block()
	pos := -1
	for i, in := range blk.Instrs {
		if in == ssa.Instruction(ld) {
			pos = i
		}
	}
	for i := pos - 1; i >= 0; i-- {
		switch x := blk.Instrs[i].(type) {
		case *ssa.FieldAddr, *ssa.DebugRef, *ssa.IndexAddr:
		case *ssa.UnOp:
			if x.Op != token.MUL {
				return nil
			}
		case *ssa.Call:
			b, ok := x.Call.Value.(*ssa.Builtin)
			if !ok || b.Name() != "len" {
				return nil
			}
		case *ssa.Store:
			mk, ok := x.Val.(*ssa.MakeSlice)
			if !ok || !sameAddrExpr(x.Addr, ld.X, 0) || !lenOfSrc(mk) {
				return nil
			}
			// the made slice is used for nothing but this store
			for _, ref := range *mk.Referrers() {
				switch ref.(type) {
				case *ssa.DebugRef:
				case *ssa.Store:
					if ref != ssa.Instruction(x) {
						return nil
					}
				default:
					return nil
				}
			}
			return mk
		default:
			return nil
		}
	}
	return nil
}

// sameAddrExpr: two SSA address expressions built the same way from the same roots (no stores in between is the caller's business).
func sameAddrExpr(a, b ssa.Value, depth int) bool {
	if a == b {
		return true
	}
	if depth > 8 {
		return false
	}
	switch x := a.(type) {
	case *ssa.FieldAddr:
		y, ok := b.(*ssa.FieldAddr)
		return ok && x.Field == y.Field && sameAddrExpr(x.X, y.X, depth+1)
	case *ssa.UnOp:
		y, ok := b.(*ssa.UnOp)
		return ok && x.Op == token.MUL && y.Op == token.MUL && sameAddrExpr(x.X, y.X, depth+1)
	}
	return false
}

// cloneOnly: the made slice is only stored somewhere and filled by one copy in the block that makes it.
func cloneOnly(mk *ssa.MakeSlice) bool {
	copies := 0
	for _, ref := range *mk.Referrers() {
		switch x := ref.(type) {
		case *ssa.Store:
			if x.Val != mk {
				return false
			}
		case *ssa.DebugRef:
		case *ssa.Call:
			b, ok := x.Call.Value.(*ssa.Builtin)
			if !ok || b.Name() != "copy" || x.Call.Args[0] != mk || x.Block() != mk.Block() {
				return false
			}
			copies++
		default:
			return false
		}
	}
	return copies == 1
}

// freeVarMayBeWritten: the closure stores through the captured variable or lets its address escape.
func freeVarMayBeWritten(fv *ssa.FreeVar) bool {
	for _, ref := range *fv.Referrers() {
		switch x := ref.(type) {
		case *ssa.UnOp, *ssa.DebugRef:
		case *ssa.Store:
			if x.Addr == fv || x.Val == fv {
				return true
			}
		default:
			return true
		}
	}
	return false
}
