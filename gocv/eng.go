package main

import (
	"fmt"
	"go/types"
	"os"
	"sort"
	"strings"

	"golang.org/x/tools/go/packages"
	"golang.org/x/tools/go/ssa"
	"golang.org/x/tools/go/ssa/ssautil"
)

type ghostFieldInfo struct {
	heap string
	sort string
	typ  types.Type
}

type Loaded struct {
	prog    *ssa.Program
	pkgs    []*packages.Package
	modPath string
	byPath  map[string]*packages.Package
}

type Eng struct {
	*Loaded
	sorts        *Sorts
	specs        *SpecDB
	heapSorts    map[string]string
	heapElemType map[string]types.Type
	typeIDs      map[string]int
	typeByID     map[int]types.Type
	strIDs       map[string]int
	modCache     map[*ssa.Function]map[string]bool
	specErrors   []string
	ghosts       map[string]*ghostFieldInfo
	funcIndex    map[string]*ssa.Function
}

func loadProgram(repo string, patterns []string) (*Loaded, error) {
	cfg := &packages.Config{Mode: packages.LoadAllSyntax | packages.NeedModule, Dir: repo, BuildFlags: []string{"-tags=verif"}, Env: os.Environ()}
	pkgs, err := packages.Load(cfg, patterns...)
	if err != nil {
		return nil, err
	}
	var errs []string
	packages.Visit(pkgs, nil, func(p *packages.Package) {
		for _, e := range p.Errors {
			errs = append(errs, e.Error())
		}
	})
	if len(errs) > 0 {
		return nil, fmt.Errorf("package errors:\n%s", strings.Join(errs, "\n"))
	}
	prog, _ := ssautil.AllPackages(pkgs, ssa.GlobalDebug|ssa.InstantiateGenerics)
	prog.Build()
	l := &Loaded{prog: prog, pkgs: pkgs, byPath: map[string]*packages.Package{}}
	packages.Visit(pkgs, nil, func(p *packages.Package) { l.byPath[p.PkgPath] = p })
	if len(pkgs) > 0 && pkgs[0].Module != nil {
		l.modPath = pkgs[0].Module.Path
	}
	return l, nil
}

func newEng(l *Loaded, specs *SpecDB, keyMode bool) *Eng {
	e := &Eng{Loaded: l, sorts: newSorts(keyMode), specs: specs, heapSorts: map[string]string{}, heapElemType: map[string]types.Type{},
		typeIDs: map[string]int{}, typeByID: map[int]types.Type{}, strIDs: map[string]int{}, modCache: map[*ssa.Function]map[string]bool{},
		ghosts: map[string]*ghostFieldInfo{}}
	e.indexFuncs()
	return e
}

func (e *Eng) inModule(path string) bool {
	return path == e.modPath || strings.HasPrefix(path, e.modPath+"/")
}

func (e *Eng) typesPkg(path string) *types.Package {
	if p, ok := e.byPath[path]; ok {
		return p.Types
	}
	return nil
}

func (e *Eng) indexFuncs() {
	e.funcIndex = map[string]*ssa.Function{}
	for fn := range ssautil.AllFunctions(e.prog) {
		e.funcIndex[fn.String()] = fn
	}
}

func (e *Eng) bindError(sp *FuncSpec, c *Clause, err error) {
	name := "?"
	if sp != nil {
		name = sp.Name
	}
	msg := fmt.Sprintf("%s: clause %q (%s:%d) does not bind: %v", name, c.Text, c.File, c.Line, err)
	for _, m := range e.specErrors {
		if m == msg {
			return
		}
	}
	e.specErrors = append(e.specErrors, msg)
}

// ghostField resolves `x.name` where name is a ghost field declared for x's type.
func (e *Eng) ghostField(t types.Type, name string) *ghostFieldInfo {
	nt := namedOf(t)
	if nt == nil {
		return nil
	}
	key := nt.Obj().Name() + "." + name
	if g, ok := e.ghosts[key]; ok {
		return g
	}
	for _, gf := range e.specs.Ghosts {
		if gf.Type == nt.Obj().Name() && gf.Name == name {
			cx := &evalCtx{run: &Run{eng: e}, pkg: nt.Obj().Pkg()}
			gt, err := cx.resolveType(gf.GoType)
			if err != nil {
				e.specErrors = append(e.specErrors, "ghost field "+key+": "+err.Error())
				return nil
			}
			sort := e.sorts.sortOf(gt)
			g := &ghostFieldInfo{heap: e.regHeap("GH_"+nt.Obj().Name()+"_"+name, "(Array Int "+sort+")", gt), sort: sort, typ: gt}
			e.ghosts[key] = g
			return g
		}
	}
	e.ghosts[key] = nil
	return nil
}

// verifyFunc generates the obligations of one function under contract.
func (e *Eng) verifyFunc(fn *ssa.Function, sp *FuncSpec, known *knownFindings) *Run {
	r := &Run{eng: e, top: fn, spec: sp, heapSort: map[string]string{}, heapInit: map[string]string{}, warnings: map[string]bool{},
		abstracted: map[string]bool{}, inlined: map[string]bool{}, assumed: map[string]bool{}, oblNames: map[string]int{}, ghostUF: map[string]bool{}}
	st := &State{reach: "true", env: map[ssa.Value]Val{}, heaps: map[string]string{}, vars: map[string]Val{}}
	r.emit("(declare-const frontier!0 Int)")
	r.assumeGlobal("(> frontier!0 0)")
	st.frontier = "frontier!0"
	r.entry = st
	fr := &Frame{run: r, fn: fn, top: true, spec: sp, params: map[string]Val{}}
	bindIn := func(v ssa.Value, name string) {
		t := v.Type()
		tv := r.freshOf(st, "in_"+name, t)
		st.env[v] = tv
		fr.params[name] = tv
		st.vars[name] = tv
		r.inputs = append(r.inputs, inputVar{name, tv})
	}
	for _, p := range fn.Params {
		bindIn(p, p.Name())
	}
	for _, fv := range fn.FreeVars {
		// captured variables are pointers to cells
		t := fv.Type()
		tv := r.freshOf(st, "fv_"+fv.Name(), t)
		if pt, ok := t.Underlying().(*types.Pointer); ok && !isAggregate(pt.Elem()) {
			a := &Addr{kind: aCell, base: tv.S, typ: pt.Elem()}
			st.env[fv] = a
			fr.params[fv.Name()] = a
			st.vars["&"+fv.Name()] = a
		} else {
			st.env[fv] = tv
			fr.params[fv.Name()] = tv
			st.vars["&"+fv.Name()] = tv
		}
	}
	r.entry = st.clone()
	fr.entry = r.entry
	cx := fr.newCtx(st, nil, false)
	var reqs []string
	for _, c := range sp.Requires {
		f, err := cx.boolExpr(c.Expr)
		if err != nil {
			e.bindError(sp, c, err)
			continue
		}
		r.assume(st, f)
		reqs = append(reqs, f)
	}
	// axioms
	for _, ax := range e.specs.Axioms {
		acx := fr.newCtx(st, nil, false)
		if f, err := acx.boolExpr(ax.Expr); err == nil {
			r.assumeGlobal(f)
			r.assumed["axiom:"+labelOr(ax, 0)] = true
		}
	}
	r.cover(st, "cover", "requires", "precondition is satisfiable", "true")
	if sp.Trusted || sp.NoVerify {
		return r
	}
	r.entry.heaps = map[string]string{}
	for k, v := range st.heaps {
		r.entry.heaps[k] = v
	}
	exit, results := fr.execFunction(st)
	if !exit.dead {
		binds := map[string]Val{}
		for k, v := range fr.params {
			binds[k] = v
		}
		sig := fn.Signature
		switch len(results) {
		case 0:
		case 1:
			bindResults(binds, sig, results[0])
		default:
			bindResults(binds, sig, Tuple(results))
		}
		ecx := &evalCtx{fr: fr, run: r, st: exit, old: r.entry, binds: binds, pkg: cx.pkg}
		r.cover(exit, "cover", "returns", "some execution returns normally", "true")
		for i, c := range sp.Ensures {
			f, err := ecx.boolExpr(c.Expr)
			if err != nil {
				e.bindError(sp, c, err)
				continue
			}
			o := r.oblige(exit, "ensures", labelOr(c, i), c.Text, f)
			o.replay = &replayInfo{results: results}
			o.clause = c
			if kf := known.match(o); kf != nil {
				if ex, err := ecx.boolExpr(kf.except); err == nil {
					o.exceptObl = &Obligation{Name: o.Name + "[except]", Kind: o.Kind, Func: o.Func, Text: c.Text + " unless " + kf.exceptText,
						prefixLen: o.prefixLen, goal: implies(exit.reach, or(ex, f)), run: r}
				} else {
					e.specErrors = append(e.specErrors, fmt.Sprintf("known finding %s: except clause does not bind: %v", kf.obligation, err))
				}
			}
		}
	} else if len(sp.Ensures) > 0 {
		r.warn("%s: no normal return is reachable", fn.Name())
	}
	for _, ss := range sp.Sites {
		if ss.matched == 0 {
			e.bindError(sp, ss.Clause, fmt.Errorf("site %s(%s) not found in %s", ss.Kind, ss.Callee, fn.Name()))
		}
	}
	for n := range sp.Loops {
		if fr.li == nil || n > len(fr.li.loops) || n < 1 {
			e.specErrors = append(e.specErrors, fmt.Sprintf("%s: loop %d does not exist", sp.Name, n))
		}
	}
	return r
}

type replayInfo struct {
	results []Val
}

func (r *Run) sortedWarnings() []string {
	var w []string
	for k := range r.warnings {
		w = append(w, k)
	}
	sort.Strings(w)
	return w
}
