package main

import (
	"regexp"
	"fmt"
	"go/types"
	"os"
	"sort"
	"strings"

	"golang.org/x/tools/go/packages"
	"golang.org/x/tools/go/ssa"
	"golang.org/x/tools/go/ssa/ssautil"
)

type ghostFieldInfo struct {
	heap string
	sort string
	typ  types.Type
}

type Loaded struct {
	prog    *ssa.Program
	pkgs    []*packages.Package
	modPath string
	byPath  map[string]*packages.Package
}

type Eng struct {
	*Loaded
	sorts        *Sorts
	specs        *SpecDB
	heapSorts    map[string]string
	heapElemType map[string]types.Type
	typeIDs      map[string]int
	typeByID     map[int]types.Type
	strIDs       map[string]int
	modCache     map[*ssa.Function]map[string]bool
	specErrors   []string
	ghosts       map[string]*ghostFieldInfo
	funcIndex    map[string]*ssa.Function
	globalInfo   map[*ssa.Global]*globalFact
	curProp      string
}

// transitionWriters lists the functions of a transition's package that store to the field (so that every
// write is checked, also in functions nobody annotated).
func (e *Eng) transitionWriters(ft *FieldTransition) []*ssa.Function {
	var out []*ssa.Function
	for name, fn := range e.funcIndex {
		_ = name
		pk := ""
		if fn.Pkg != nil {
			pk = fn.Pkg.Pkg.Path()
		} else if fn.Parent() != nil && fn.Parent().Pkg != nil {
			pk = fn.Parent().Pkg.Pkg.Path()
		}
		if pk != ft.Pkg || fn.Synthetic != "" {
			continue
		}
		found := false
		for _, b := range fn.Blocks {
			for _, in := range b.Instrs {
				var addr ssa.Value
				switch x := in.(type) {
				case *ssa.Store:
					addr = x.Addr
				case *ssa.Call:
					if f := x.Common().StaticCallee(); f != nil && f.Pkg != nil && f.Pkg.Pkg.Path() == "sync/atomic" && len(x.Common().Args) > 0 {
						addr = x.Common().Args[0]
					}
				}
				if fa, ok := addr.(*ssa.FieldAddr); ok {
					st := fa.X.Type().Underlying().(*types.Pointer).Elem()
					if nt := namedOf(st); nt != nil && nt.Obj().Name() == ft.Type {
						if s2, ok := st.Underlying().(*types.Struct); ok && s2.Field(fa.Field).Name() == ft.Field {
							found = true
						}
					}
				}
			}
		}
		if found {
			out = append(out, fn)
		}
	}
	sort.Slice(out, func(i, j int) bool { return out[i].String() < out[j].String() })
	return out
}


// globalFact: what is known about a package-level variable that is only ever assigned by its package's
// initialiser (checked over the whole loaded program).
type globalFact struct {
	immutable  bool
	nonNilErr  bool
	nonNilRef  bool
	constInit  *ssa.Const
	funcInit  *ssa.Function
}

func (e *Eng) globalFactOf(g *ssa.Global) *globalFact {
	if e.globalInfo == nil {
		e.globalInfo = map[*ssa.Global]*globalFact{}
		stores := map[*ssa.Global][]*ssa.Store{}
		escaped := map[*ssa.Global]bool{}
		for fn := range ssautil.AllFunctions(e.prog) {
			if fn.Pkg == nil || !e.inModule(fn.Pkg.Pkg.Path()) {
				continue
			}
			for _, b := range fn.Blocks {
				for _, in := range b.Instrs {
					if st, ok := in.(*ssa.Store); ok {
						if gg, ok := st.Addr.(*ssa.Global); ok {
							stores[gg] = append(stores[gg], st)
						}
					}
					for _, op := range in.Operands(nil) {
						if gg, ok := (*op).(*ssa.Global); ok {
							switch x := in.(type) {
							case *ssa.UnOp, *ssa.DebugRef:
							case *ssa.Store:
								if x.Addr != gg {
									escaped[gg] = true
								}
							default:
								escaped[gg] = true // address taken or passed on
							}
						}
					}
				}
			}
		}
		for gg, ss := range stores {
			gf := &globalFact{}
			e.globalInfo[gg] = gf
			if escaped[gg] || len(ss) != 1 || ss[0].Parent().Name() != "init" || ss[0].Parent().Pkg != gg.Pkg {
				continue
			}
			gf.immutable = true
			switch v := ss[0].Val.(type) {
			case *ssa.Call:
				if f := v.Common().StaticCallee(); f != nil && nonNilErrorFuncs[f.String()] {
					gf.nonNilErr = true
				}
			case *ssa.Const:
				gf.constInit = v
			case *ssa.MakeMap, *ssa.MakeChan, *ssa.Alloc, *ssa.MakeClosure:
				gf.nonNilRef = true
			case *ssa.Function:
				// var F = f, never assigned again: calls through F are calls of f
				gf.funcInit = v
				gf.nonNilRef = true
			}
		}
	}
	if gf, ok := e.globalInfo[g]; ok {
		return gf
	}
	return &globalFact{}
}


func loadProgram(repo string, patterns []string) (*Loaded, error) {
	cfg := &packages.Config{Mode: packages.LoadAllSyntax | packages.NeedModule, Dir: repo, BuildFlags: []string{"-tags=verif"}, Env: os.Environ()}
	pkgs, err := packages.Load(cfg, patterns...)
	if err != nil {
		return nil, err
	}
	var errs []string
	packages.Visit(pkgs, nil, func(p *packages.Package) {
		for _, e := range p.Errors {
			errs = append(errs, e.Error())
		}
	})
	if len(errs) > 0 {
		return nil, fmt.Errorf("package errors:\n%s", strings.Join(errs, "\n"))
	}
	prog, _ := ssautil.AllPackages(pkgs, ssa.GlobalDebug|ssa.InstantiateGenerics)
	prog.Build()
	l := &Loaded{prog: prog, pkgs: pkgs, byPath: map[string]*packages.Package{}}
	packages.Visit(pkgs, nil, func(p *packages.Package) { l.byPath[p.PkgPath] = p })
	if len(pkgs) > 0 && pkgs[0].Module != nil {
		l.modPath = pkgs[0].Module.Path
	}
	return l, nil
}

func newEng(l *Loaded, specs *SpecDB, keyMode bool) *Eng {
	e := &Eng{Loaded: l, sorts: newSorts(keyMode), specs: specs, heapSorts: map[string]string{}, heapElemType: map[string]types.Type{},
		typeIDs: map[string]int{}, typeByID: map[int]types.Type{}, strIDs: map[string]int{}, modCache: map[*ssa.Function]map[string]bool{},
		ghosts: map[string]*ghostFieldInfo{}}
	e.indexFuncs()
	return e
}

func (e *Eng) inModule(path string) bool {
	return path == e.modPath || strings.HasPrefix(path, e.modPath+"/")
}

func (e *Eng) typesPkg(path string) *types.Package {
	if p, ok := e.byPath[path]; ok {
		return p.Types
	}
	return nil
}

func (e *Eng) indexFuncs() {
	e.funcIndex = map[string]*ssa.Function{}
	var generic []*ssa.Function
	for fn := range ssautil.AllFunctions(e.prog) {
		e.funcIndex[fn.String()] = fn
		if len(fn.TypeArgs()) > 0 && len(fn.Blocks) > 0 {
			generic = append(generic, fn)
		}
	}
	// instances of generic functions are also found under the name without type arguments (the contract of a generic
	// function is checked on one of its instantiations: the first in name order)
	sort.Slice(generic, func(i, j int) bool { return generic[i].String() < generic[j].String() })
	for _, fn := range generic {
		plain := typeArgsRe.ReplaceAllString(fn.String(), "")
		if _, have := e.funcIndex[plain]; !have {
			e.funcIndex[plain] = fn
		}
	}
}

var typeArgsRe = regexp.MustCompile(`\[[^\[\]]*\]`)

func (e *Eng) bindError(sp *FuncSpec, c *Clause, err error) {
	name := "?"
	if sp != nil {
		name = sp.Name
	}
	msg := fmt.Sprintf("%s: clause %q (%s:%d) does not bind: %v", name, c.Text, c.File, c.Line, err)
	for _, m := range e.specErrors {
		if m == msg {
			return
		}
	}
	e.specErrors = append(e.specErrors, msg)
}

// ghostField resolves `x.name` where name is a ghost field declared for x's type.
func (e *Eng) ghostField(t types.Type, name string) *ghostFieldInfo {
	nt := namedOf(t)
	if nt == nil {
		return nil
	}
	key := nt.Obj().Name() + "." + name
	if g, ok := e.ghosts[key]; ok {
		return g
	}
	for _, gf := range e.specs.Ghosts {
		if gf.Type == nt.Obj().Name() && gf.Name == name {
			cx := &evalCtx{run: &Run{eng: e}, pkg: nt.Obj().Pkg()}
			gt, err := cx.resolveType(gf.GoType)
			if err != nil {
				e.specErrors = append(e.specErrors, "ghost field "+key+": "+err.Error())
				return nil
			}
			sort := e.sorts.sortOf(gt)
			idx := "Int"
			if _, isIface := nt.Underlying().(*types.Interface); isIface {
				idx = SIface
			}
			g := &ghostFieldInfo{heap: e.regHeap("GH_"+nt.Obj().Name()+"_"+name, "(Array "+idx+" "+sort+")", gt), sort: sort, typ: gt}
			e.ghosts[key] = g
			return g
		}
	}
	e.ghosts[key] = nil
	return nil
}

// verifyFunc generates the obligations of one function under contract.
func (e *Eng) verifyFunc(fn *ssa.Function, sp *FuncSpec, known *knownFindings) *Run {
	r := &Run{eng: e, top: fn, spec: sp, heapSort: map[string]string{}, heapInit: map[string]string{}, warnings: map[string]bool{},
		abstracted: map[string]bool{}, inlined: map[string]bool{}, assumed: map[string]bool{}, oblNames: map[string]int{}, ghostUF: map[string]bool{}}
	st := &State{reach: "true", env: map[ssa.Value]Val{}, heaps: map[string]string{}, vars: map[string]Val{}}
	r.emit("(declare-const frontier!0 Int)")
	r.assumeGlobal("(> frontier!0 0)")
	st.frontier = "frontier!0"
	r.entry = st
	fr := &Frame{run: r, fn: fn, top: true, spec: sp, params: map[string]Val{}}
	bindIn := func(v ssa.Value, name string) {
		t := v.Type()
		tv := r.freshOf(st, "in_"+name, t)
		st.env[v] = tv
		fr.params[name] = tv
		st.vars[name] = tv
		r.inputs = append(r.inputs, inputVar{name, tv})
	}
	for _, p := range fn.Params {
		bindIn(p, p.Name())
	}
	var fvRefs []string
	for _, fv := range fn.FreeVars {
		// captured variables are pointers to cells
		t := fv.Type()
		tv := r.freshOf(st, "fv_"+fv.Name(), t)
		r.assumeGlobal(app(">", tv.S, "0"))
		fvRefs = append(fvRefs, tv.S)
		if pt, ok := t.Underlying().(*types.Pointer); ok && !isAggregate(pt.Elem()) {
			a := &Addr{kind: aCell, base: tv.S, typ: pt.Elem()}
			st.env[fv] = a
			fr.params[fv.Name()] = a
			st.vars["&"+fv.Name()] = a
		} else {
			st.env[fv] = tv
			fr.params[fv.Name()] = tv
			st.vars["&"+fv.Name()] = tv
		}
	}
	if len(fvRefs) > 1 {
		// distinct captured variables live in distinct cells
		r.assumeGlobal(app("distinct", fvRefs...))
	}
	r.entry = st.clone()
	fr.entry = r.entry
	cx := fr.newCtx(st, nil, false)
	var reqs []string
	for _, c := range sp.Requires {
		f, err := cx.boolExpr(c.Expr)
		if err != nil {
			e.bindError(sp, c, err)
			continue
		}
		r.assume(st, f)
		reqs = append(reqs, f)
	}
	for _, c := range sp.TypeInvs {
		f, err := cx.boolExpr(c.Expr)
		if err != nil {
			e.bindError(sp, c, err)
			continue
		}
		r.assume(st, f)
	}
	// axioms
	for _, ax := range e.specs.Axioms {
		// an axiom belongs to the package that states it: it is assumed for that package's functions and for
		// functions of packages that import it (their contracts may use its spec functions)
		apkg := e.typesPkg(e.specs.AxiomPkg[ax])
		if apkg != nil && fn.Pkg != nil && apkg != fn.Pkg.Pkg {
			imported := false
			for _, ip := range fn.Pkg.Pkg.Imports() {
				if ip == apkg {
					imported = true
				}
			}
			if !imported {
				continue
			}
		}
		if strings.Contains(ax.Text, "[]byte") && !e.sorts.keyMode {
			continue // an axiom about abstract keys says nothing in concrete-bytes mode
		}
		acx := fr.newCtx(st, nil, false)
		if apkg != nil {
			acx.pkg = apkg
		}
		if f, err := acx.boolExpr(ax.Expr); err == nil {
			r.assumeGlobal(f)
			r.assumed["axiom:"+labelOr(ax, 0)] = true
		}
	}
	r.cover(st, "cover", "requires", "precondition is satisfiable", "true")
	if sp.Trusted || sp.NoVerify {
		return r
	}
	r.entry.heaps = map[string]string{}
	for k, v := range st.heaps {
		r.entry.heaps[k] = v
	}
	exit, results := fr.execFunction(st)
	if !exit.dead {
		binds := map[string]Val{}
		for k, v := range fr.params {
			binds[k] = v
		}
		sig := fn.Signature
		switch len(results) {
		case 0:
		case 1:
			bindResults(binds, sig, results[0])
		default:
			bindResults(binds, sig, Tuple(results))
		}
		r.cover(exit, "cover", "returns", "some execution returns normally", "true")
		// one proof goal per return path and clause (kept as parts of one named obligation)
		type retCtx struct {
			ecx *evalCtx
			st  *State
		}
		var rcs []retCtx
		for _, ri := range fr.returns {
			if ri.st.dead || ri.st.reach == "false" {
				continue
			}
			b2 := map[string]Val{}
			for k, v := range fr.params {
				b2[k] = v
			}
			switch len(ri.results) {
			case 0:
			case 1:
				bindResults(b2, sig, ri.results[0])
			default:
				bindResults(b2, sig, Tuple(ri.results))
			}
			rcs = append(rcs, retCtx{&evalCtx{fr: fr, run: r, st: ri.st, old: r.entry, binds: b2, pkg: cx.pkg, useVars: true, varsAfter: true}, ri.st})

		}
		for i, c := range sp.Ensures {
			if c.Assumed {
				r.assumed["postulate of "+sp.Name+" (used by callers, not checked against the body): "+c.Text] = true
				continue
			}
			parent := &Obligation{Name: r.oblName(sp.Name + ":ensures:" + labelOr(c, i)), Kind: "ensures", Func: sp.Name, Text: c.Text, run: r, clause: c}
			kf := known.match(parent)
			ok := true
			for _, rc := range rcs {
				f, err := rc.ecx.boolExpr(c.Expr)
				if err != nil {
					e.bindError(sp, c, err)
					ok = false
					break
				}
				if guardExcluded(f, rc.st.eqFacts) {
					continue // the clause's guard names another constant than the one this return path has branched on
				}
				part := &Obligation{Name: parent.Name, Kind: "ensures", Func: sp.Name, Text: c.Text, prefixLen: len(r.script), goal: implies(rc.st.reach, f), run: r, clause: c}
				if kf != nil {
					if ex, err := rc.ecx.boolExpr(kf.except); err == nil {
						part.exceptObl = &Obligation{Name: parent.Name + "[except]", Kind: "ensures", Func: sp.Name, Text: c.Text + " unless " + kf.exceptText,
							prefixLen: len(r.script), goal: implies(rc.st.reach, or(ex, f)), run: r}
					} else {
						e.specErrors = append(e.specErrors, fmt.Sprintf("known finding %s: except clause does not bind: %v", kf.obligation, err))
					}
				}
				parent.parts = append(parent.parts, part)
			}
			if ok {
				r.obls = append(r.obls, parent)
			}
		}
		_ = binds
	} else if len(sp.Ensures) > 0 {
		r.warn("%s: no normal return is reachable", fn.Name())
	}
	for _, ss := range sp.Sites {
		if ss.matched == 0 {
			e.bindError(sp, ss.Clause, fmt.Errorf("site %s(%s) not found in %s", ss.Kind, ss.Callee, fn.Name()))
		}
	}
	for n := range sp.Loops {
		if fr.li == nil || n > len(fr.li.loops) || n < 1 {
			e.specErrors = append(e.specErrors, fmt.Sprintf("%s: loop %d does not exist", sp.Name, n))
		}
	}
	return r
}

type replayInfo struct {
	results []Val
}

func (r *Run) sortedWarnings() []string {
	var w []string
	for k := range r.warnings {
		w = append(w, k)
	}
	sort.Strings(w)
	return w
}

// verifyLemma: a lemma is a ghost function without body; its statement is one SMT query per ensures clause
// over symbolic parameters and a symbolic heap.
func (e *Eng) verifyLemma(lm *Lemma) *Run {
	sp := &FuncSpec{Name: lm.Pkg + ".lemma." + lm.Name, Pkg: lm.Pkg, Requires: lm.Requires, Ensures: lm.Ensures, Loops: map[int]*LoopSpec{}}
	r := &Run{eng: e, spec: sp, heapSort: map[string]string{}, heapInit: map[string]string{}, warnings: map[string]bool{},
		abstracted: map[string]bool{}, inlined: map[string]bool{}, assumed: map[string]bool{}, oblNames: map[string]int{}, ghostUF: map[string]bool{}}
	st := &State{reach: "true", env: map[ssa.Value]Val{}, heaps: map[string]string{}, vars: map[string]Val{}}
	r.emit("(declare-const frontier!0 Int)")
	r.assumeGlobal("(> frontier!0 0)")
	st.frontier = "frontier!0"
	r.entry = st
	binds := map[string]Val{}
	cx := &evalCtx{run: r, st: st, old: st, binds: binds, pkg: e.typesPkg(lm.Pkg)}
	for _, p := range lm.Params {
		t, err := cx.resolveType(p.Type)
		if err != nil {
			e.specErrors = append(e.specErrors, fmt.Sprintf("lemma %s: %v", lm.Name, err))
			return r
		}
		tv := r.freshOf(st, "in_"+p.Name, t)
		binds[p.Name] = tv
		r.inputs = append(r.inputs, inputVar{p.Name, tv})
	}
	for _, c := range lm.Requires {
		f, err := cx.boolExpr(c.Expr)
		if err != nil {
			e.bindError(sp, c, err)
			continue
		}
		r.assume(st, f)
	}
	r.cover(st, "cover", "requires", "lemma premise is satisfiable", "true")
	for i, c := range lm.Ensures {
		f, err := cx.boolExpr(c.Expr)
		if err != nil {
			e.bindError(sp, c, err)
			continue
		}
		r.oblige(st, "lemma", labelOr(c, i), c.Text, f)
	}
	return r
}

// localVarType finds the type of a local variable of fn by name (from the type checker's definitions).
func (e *Eng) localVarType(fn *ssa.Function, name string) types.Type {
	syn := fn.Syntax()
	if syn == nil || fn.Pkg == nil {
		return nil
	}
	p := e.byPath[fn.Pkg.Pkg.Path()]
	if p == nil || p.TypesInfo == nil {
		return nil
	}
	var found types.Type
	for id, obj := range p.TypesInfo.Defs {
		if obj == nil || id.Name != name || id.Pos() < syn.Pos() || id.Pos() > syn.End() {
			continue
		}
		if v, ok := obj.(*types.Var); ok && !v.IsField() {
			if found == nil || id.Pos() < 0 {
				found = v.Type()
			}
		}
	}
	return found
}

// guardExcluded: f is (=> G B) and G has a top-level conjunct (= T n) while the path is known to have T = m, m != n.
// Such a goal is trivially valid; it is not generated.
func guardExcluded(f string, facts map[string]string) bool {
	if len(facts) == 0 || !strings.HasPrefix(f, "(=> ") {
		return false
	}
	args := sexprArgs(f)
	if len(args) != 3 {
		return false
	}
	var conj []string
	var walk func(g string)
	walk = func(g string) {
		if strings.HasPrefix(g, "(and ") {
			for _, a := range sexprArgs(g)[1:] {
				walk(a)
			}
			return
		}
		conj = append(conj, g)
	}
	walk(args[1])
	for _, g := range conj {
		if !strings.HasPrefix(g, "(= ") {
			continue
		}
		a := sexprArgs(g)
		if len(a) != 3 {
			continue
		}
		for _, pr := range [][2]string{{a[1], a[2]}, {a[2], a[1]}} {
			if m, ok := facts[pr[0]]; ok {
				if _, isNum := numeral(pr[1]); isNum && pr[1] != m {
					return true
				}
			}
		}
	}
	return false
}

// sexprArgs splits "(op a b ...)" into [op a b ...] at the top level.
func sexprArgs(s string) []string {
	if len(s) < 2 || s[0] != '(' || s[len(s)-1] != ')' {
		return nil
	}
	s = s[1 : len(s)-1]
	var out []string
	depth, start := 0, -1
	for i := 0; i < len(s); i++ {
		switch s[i] {
		case '(':
			if depth == 0 && start < 0 {
				start = i
			}
			depth++
		case ')':
			depth--
			if depth == 0 {
				out = append(out, s[start:i+1])
				start = -1
			}
		case ' ', '\n':
			if depth == 0 && start >= 0 {
				out = append(out, s[start:i])
				start = -1
			}
		default:
			if depth == 0 && start < 0 {
				start = i
			}
		}
	}
	if start >= 0 {
		out = append(out, s[start:])
	}
	return out
}
