package rangetask_test

// Finding F7 (property C14), replayed on the real code: Runner.RunOnRange can return nil although only a prefix of the
// requested range was handed to the workers: when the caller's context is cancelled while the task channel is empty, the
// push loop leaves through `case <-ctx.Done()`, no worker ever sees a task after the cancellation, no worker records an
// error, and RunOnRange reports success.
// Obligation: (*rangetask.Runner).RunOnRange:ensures:whole.

import (
	"context"
	"sync/atomic"
	"testing"

	"github.com/tikv/client-go/v2/kv"
	"github.com/tikv/client-go/v2/testutils"
	"github.com/tikv/client-go/v2/tikv"
	"github.com/tikv/client-go/v2/txnkv/rangetask"
)

func TestGocvFindingF7(t *testing.T) {
	var splitKeys [][]byte
	for k := byte('a'); k <= byte('z'); k++ {
		splitKeys = append(splitKeys, []byte{k})
	}
	client, cluster, pdClient, err := testutils.NewMockTiKV("", nil)
	if err != nil {
		t.Fatal(err)
	}
	testutils.BootstrapWithMultiRegions(cluster, splitKeys...)
	store, err := tikv.NewTestTiKVStore(client, pdClient, nil, nil, 0)
	if err != nil {
		t.Fatal(err)
	}
	defer store.Close()
	const regions = 27
	for attempt := 0; attempt < 300; attempt++ {
		ctx, cancel := context.WithCancel(context.Background())
		var handled int32
		runner := rangetask.NewRangeTaskRunner("f7", store, 1, func(ctx context.Context, r kv.KeyRange) (rangetask.TaskStat, error) {
			if atomic.AddInt32(&handled, 1) == 3 {
				cancel() // the caller gives up while the third piece is being handled; the handler itself succeeds
			}
			return rangetask.TaskStat{CompletedRegions: 1}, nil
		})
		runner.SetRegionsPerTask(1)
		err := runner.RunOnRange(ctx, []byte(""), []byte(""))
		cancel()
		if err == nil && atomic.LoadInt32(&handled) < regions {
			t.Fatalf("attempt %d: RunOnRange returned nil but only %d of %d pieces were handled", attempt, handled, regions)
		}
	}
}
