// Replay of finding F20 (C06) on the real code (go test -overlay, package tikv, -run TestF20): before the fix the background pessimistic rollback that follows a failed
// LockKeys ran on the caller context; cancelling it after LockKeys had returned aborted the rollback and left the already acquired locks in the store.

package tikv

import (
	"context"
	"math"
	"sync"
	"testing"
	"time"

	"github.com/stretchr/testify/require"
	"github.com/tikv/client-go/v2/kv"
	"github.com/tikv/client-go/v2/testutils"
	"github.com/tikv/client-go/v2/tikvrpc"
	"github.com/tikv/client-go/v2/txnkv/txnlock"
)

func f20NewStore(t *testing.T, hijack func(Client) Client) *KVStore {
	client, cluster, pdClient, err := testutils.NewMockTiKV("", nil)
	require.NoError(t, err)
	testutils.BootstrapWithMultiRegions(cluster, []byte("h"), []byte("p"))
	store, err := NewTestTiKVStore(client, pdClient, hijack, nil, 0)
	require.NoError(t, err)
	return store
}

func f20LeftLocks(t *testing.T, store *KVStore, wait time.Duration) []*txnlock.Lock {
	var locks []*txnlock.Lock
	deadline := time.Now().Add(wait)
	for {
		var err error
		locks, err = StoreProbe{KVStore: store}.ScanLocks(context.Background(), []byte{}, []byte{0xff, 0xff}, math.MaxUint64)
		require.NoError(t, err)
		if len(locks) == 0 || time.Now().After(deadline) {
			return locks
		}
		time.Sleep(20 * time.Millisecond)
	}
}

type f20DelayClient struct {
	Client
	mu      sync.Mutex
	release chan struct{}
}

func (c *f20DelayClient) SendRequest(ctx context.Context, addr string, req *tikvrpc.Request, timeout time.Duration) (*tikvrpc.Response, error) {
	if req.Type == tikvrpc.CmdPessimisticRollback {
		// the rollback goroutine is scheduled a little later than the caller's clean-up
		<-c.release
	}
	return c.Client.SendRequest(ctx, addr, req, timeout)
}

// Suspect 3: the asynchronous pessimistic rollback after a failed LockKeys runs on the context passed to LockKeys.
// A caller that cancels this context once LockKeys has returned (statement context) aborts the rollback: the keys of
// the call that were already locked stay locked, and they are not flagged in the membuffer either.
func TestF20AsyncPessimisticRollbackSurvivesCallerCancel(t *testing.T) {
	hijack := &f20DelayClient{release: make(chan struct{})}
	store := f20NewStore(t, func(c Client) Client {
		hijack.Client = c
		return hijack
	})
	defer func() { require.NoError(t, store.Close()) }()
	bg := context.Background()

	// a committed version of "x" above the for_update_ts makes the lock call fail with a write conflict
	txn, err := store.Begin()
	require.NoError(t, err)
	txn.SetPessimistic(true)
	forUpdateTS, err := store.CurrentTimestamp("global")
	require.NoError(t, err)
	w, err := store.Begin()
	require.NoError(t, err)
	require.NoError(t, w.Set([]byte("x"), []byte("vx")))
	require.NoError(t, w.Commit(bg))

	ctx, cancel := context.WithCancel(bg)
	err = txn.LockKeys(ctx, kv.NewLockCtx(forUpdateTS, kv.LockNoWait, time.Now()), []byte("a"), []byte("x"))
	require.Error(t, err) // write conflict on "x"; "a" (primary batch, other region) is locked already
	cancel()              // the statement is over
	close(hijack.release)
	require.NoError(t, txn.Rollback())

	left := f20LeftLocks(t, store, 3*time.Second)
	require.Empty(t, left, "lock left after failed LockKeys + Rollback")
}
