// Replay of finding F18 (C06) on the real code (go test -overlay, package tikv, -run TestF18): before the fix a pessimistically locked key whose
// buffered value is a deletion that the KVFilter calls unnecessary was dropped from the mutations, and its lock stayed in the store after a successful Commit.

package tikv

import (
	"bytes"
	"context"
	"errors"
	"math"
	"testing"
	"time"

	"github.com/stretchr/testify/require"
	"github.com/tikv/client-go/v2/kv"
	"github.com/tikv/client-go/v2/testutils"
	"github.com/tikv/client-go/v2/txnkv/txnlock"
)

func f18NewStore(t *testing.T, hijack func(Client) Client) *KVStore {
	client, cluster, pdClient, err := testutils.NewMockTiKV("", nil)
	require.NoError(t, err)
	testutils.BootstrapWithMultiRegions(cluster, []byte("h"), []byte("p"))
	store, err := NewTestTiKVStore(client, pdClient, hijack, nil, 0)
	require.NoError(t, err)
	return store
}

func f18LeftLocks(t *testing.T, store *KVStore, wait time.Duration) []*txnlock.Lock {
	var locks []*txnlock.Lock
	deadline := time.Now().Add(wait)
	for {
		var err error
		locks, err = StoreProbe{KVStore: store}.ScanLocks(context.Background(), []byte{}, []byte{0xff, 0xff}, math.MaxUint64)
		require.NoError(t, err)
		if len(locks) == 0 || time.Now().After(deadline) {
			return locks
		}
		time.Sleep(20 * time.Millisecond)
	}
}

type f18Filter struct {
	unnecessary []byte
	failOn      []byte
}

func (f f18Filter) IsUnnecessaryKeyValue(key, value []byte, flags kv.KeyFlags) (bool, error) {
	if f.failOn != nil && bytes.Equal(key, f.failOn) {
		return false, errors.New("filter failure")
	}
	return f.unnecessary != nil && bytes.Equal(key, f.unnecessary), nil
}

// Suspect 1: a pessimistically locked key whose buffered value is a delete (empty value) and which the KVFilter
// declares unnecessary is dropped from the mutations (initKeysAndMutations: `if isUnnecessaryKV { continue }` in the
// empty-value branch, unlike the non-empty branch that turns it into Op_Lock) => its pessimistic lock survives Commit.
func TestF18LockedFilteredDeleteIsReleasedByCommit(t *testing.T) {
	store := f18NewStore(t, nil)
	defer func() { require.NoError(t, store.Close()) }()
	ctx := context.Background()

	txn, err := store.Begin()
	require.NoError(t, err)
	txn.SetPessimistic(true)
	txn.SetKVFilter(f18Filter{unnecessary: []byte("b")})
	forUpdateTS, err := store.CurrentTimestamp("global")
	require.NoError(t, err)
	require.NoError(t, txn.LockKeys(ctx, kv.NewLockCtx(forUpdateTS, kv.LockNoWait, time.Now()), []byte("a"), []byte("b")))
	require.NoError(t, txn.Set([]byte("a"), []byte("va")))
	require.NoError(t, txn.Delete([]byte("b")))
	require.NoError(t, txn.Commit(ctx))

	left := f18LeftLocks(t, store, 3*time.Second)
	require.Empty(t, left, "lock left after a successful commit")
}
