package tikv

import (
	"context"
	"math"
	"testing"
	"time"

	"github.com/stretchr/testify/require"
	"github.com/tikv/client-go/v2/kv"
	"github.com/tikv/client-go/v2/testutils"
	"github.com/tikv/client-go/v2/txnkv/txnlock"
)

func suspect4NewStore(t *testing.T, hijack func(Client) Client) *KVStore {
	client, cluster, pdClient, err := testutils.NewMockTiKV("", nil)
	require.NoError(t, err)
	testutils.BootstrapWithMultiRegions(cluster, []byte("h"), []byte("p"))
	store, err := NewTestTiKVStore(client, pdClient, hijack, nil, 0)
	require.NoError(t, err)
	return store
}

func suspect4LeftLocks(t *testing.T, store *KVStore, wait time.Duration) []*txnlock.Lock {
	var locks []*txnlock.Lock
	deadline := time.Now().Add(wait)
	for {
		var err error
		locks, err = StoreProbe{KVStore: store}.ScanLocks(context.Background(), []byte{}, []byte{0xff, 0xff}, math.MaxUint64)
		require.NoError(t, err)
		if len(locks) == 0 || time.Now().After(deadline) {
			return locks
		}
		time.Sleep(20 * time.Millisecond)
	}
}

// Suspect 4: Commit (or Rollback) while an aggressive locking stage still holds keys returns an error, closes the
// transaction, but neither releases the locks nor stops the heart-beat of the primary.
func TestSuspectCommitDuringAggressiveLockingLeavesLocks(t *testing.T) {
	store := suspect4NewStore(t, nil)
	defer func() { require.NoError(t, store.Close()) }()
	ctx := context.Background()

	txn, err := StoreProbe{KVStore: store}.Begin()
	require.NoError(t, err)
	txn.SetPessimistic(true)
	forUpdateTS, err := store.CurrentTimestamp("global")
	require.NoError(t, err)
	txn.StartAggressiveLocking()
	require.NoError(t, txn.LockKeys(ctx, kv.NewLockCtx(forUpdateTS, kv.LockNoWait, time.Now()), []byte("a")))
	require.Error(t, txn.Commit(ctx))
	require.Error(t, txn.Rollback()) // ErrInvalidTxn
	ttlRunning := txn.GetCommitter().IsTTLRunning()
	left := suspect4LeftLocks(t, store, 2*time.Second)
	txn.GetCommitter().CloseTTLManager()
	if ttlRunning {
		t.Errorf("heart-beat still running after the transaction was closed")
	}
	require.Empty(t, left, "lock left after the transaction was closed")
}
