// Replay of finding F13 (C12) on the real code (go test -overlay, package internal/mockstore/mocktikv, -run TestF13): before the fix the prewrite of a
// pessimistic transaction over its own, granted pessimistic lock is refused with "write conflict".

package mocktikv

import (
	"testing"

	"github.com/pingcap/kvproto/pkg/kvrpcpb"
)

// A pessimistic transaction (start 10) locks key k with for-update-ts 30 after another transaction committed k at 20.
// The pessimistic lock is granted (20 <= 30). Its prewrite of k (DO_PESSIMISTIC_CHECK, over its own pessimistic lock)
// must succeed: the reference (TiKV) does not re-check write conflicts when the transaction's own pessimistic lock is there.
func TestF13PrewriteOverOwnPessimisticLock(t *testing.T) {
	store, err := NewMVCCLevelDB("")
	if err != nil {
		t.Fatal(err)
	}
	defer store.Close()
	k := []byte("k")
	// another transaction: start 15, commit 20
	errs := store.Prewrite(&kvrpcpb.PrewriteRequest{Mutations: []*kvrpcpb.Mutation{{Op: kvrpcpb.Op_Put, Key: k, Value: []byte("other")}}, PrimaryLock: k, StartVersion: 15, LockTtl: 1000})
	for _, e := range errs {
		if e != nil {
			t.Fatal(e)
		}
	}
	if err := store.Commit([][]byte{k}, 15, 20); err != nil {
		t.Fatal(err)
	}
	// our transaction: start 10, pessimistic lock with for-update-ts 30
	resp := store.PessimisticLock(&kvrpcpb.PessimisticLockRequest{Mutations: []*kvrpcpb.Mutation{{Op: kvrpcpb.Op_PessimisticLock, Key: k}}, PrimaryLock: k, StartVersion: 10, ForUpdateTs: 30, LockTtl: 1000, WaitTimeout: -1})
	if len(resp.Errors) != 0 {
		t.Fatalf("pessimistic lock refused: %v", resp.Errors)
	}
	errs = store.Prewrite(&kvrpcpb.PrewriteRequest{Mutations: []*kvrpcpb.Mutation{{Op: kvrpcpb.Op_Put, Key: k, Value: []byte("mine")}}, PrimaryLock: k, StartVersion: 10, LockTtl: 1000,
		ForUpdateTs: 30, PessimisticActions: []kvrpcpb.PrewriteRequest_PessimisticAction{kvrpcpb.PrewriteRequest_DO_PESSIMISTIC_CHECK}})
	for _, e := range errs {
		if e != nil {
			t.Fatalf("prewrite over the transaction's own pessimistic lock was refused: %v", e)
		}
	}
	if err := store.Commit([][]byte{k}, 10, 40); err != nil {
		t.Fatal(err)
	}
	v, err := store.Get(k, 50, kvrpcpb.IsolationLevel_SI, nil)
	if err != nil || string(v) != "mine" {
		t.Fatalf("get after commit: %q %v", v, err)
	}
}
