// Replay of finding F16 (C04) on the real code (go test -overlay, package tikv, -run TestF16): before the fix a Commit request is emitted with a commit
// timestamp below the start timestamp when the oracle steps back between Begin and Commit.

package tikv

import (
	"context"
	"sync/atomic"
	"testing"
	"time"

	"github.com/tikv/client-go/v2/oracle/oracles"
	"github.com/tikv/client-go/v2/testutils"
	"github.com/tikv/client-go/v2/tikvrpc"
)

type f16Client struct {
	Client
	bad    atomic.Uint64 // a commit request with commit ts <= start ts was emitted (its commit ts + 1)
	oracle *oracles.MockOracle
}

func (c *f16Client) SendRequest(ctx context.Context, addr string, req *tikvrpc.Request, timeout time.Duration) (*tikvrpc.Response, error) {
	if req.Type == tikvrpc.CmdCommit {
		r := req.Commit()
		if r.CommitVersion <= r.StartVersion && c.bad.Load() == 0 {
			c.bad.Store(r.CommitVersion + 1)
			c.oracle.AddOffset(2 * time.Minute) // let the retry (if any) get a sane timestamp quickly
		}
	}
	return c.Client.SendRequest(ctx, addr, req, timeout)
}

// Property C04: "Every commit timestamp exceeds the start timestamp" - of the requests the client emits. The oracle steps
// back between Begin and Commit (e.g. a TSO fail-over handing out an older physical time): no Commit request may carry a
// commit timestamp at or below the start timestamp.
func TestF16CommitTSMustExceedStartTS(t *testing.T) {
	client, cluster, pdClient, err := testutils.NewMockTiKV("", nil)
	if err != nil {
		t.Fatal(err)
	}
	testutils.BootstrapWithSingleStore(cluster)
	o := &oracles.MockOracle{}
	hook := &f16Client{oracle: o}
	store, err := NewTestTiKVStore(client, pdClient, func(c Client) Client { hook.Client = c; return hook }, nil, 0)
	if err != nil {
		t.Fatal(err)
	}
	defer store.Close()
	old := store.GetOracle()
	store.SetOracle(o)
	defer old.Close()
	txn, err := store.Begin()
	if err != nil {
		t.Fatal(err)
	}
	if err := txn.Set([]byte("k"), []byte("v")); err != nil {
		t.Fatal(err)
	}
	o.AddOffset(-time.Minute) // the oracle now answers timestamps one minute in the past
	err = txn.Commit(context.Background())
	t.Logf("startTS=%d err=%v", txn.StartTS(), err)
	if b := hook.bad.Load(); b != 0 {
		t.Fatalf("a Commit request was emitted with commit ts %d <= start ts %d", b-1, txn.StartTS())
	}
}
