package locate

// Finding F1 (property C09), replayed on the real code: batchLocateRangesMerger drops a cached region whose end key is
// empty (= +infinity) once any uncached region with a bounded end has been appended, because the "covered" test
// compares *lastEndKey >= cached.EndKey() and every key is >= "".
// Obligation: batchLocateRangesMerger.build:invariant-pres:loop1.kept (and appendRegion's analogue).
// Run (from /verif): go test -overlay <overlay mapping this file into /repo/internal/locate> -run TestGocvFindingF1 ./internal/locate

import (
	"testing"

	"github.com/pingcap/kvproto/pkg/metapb"
)

func TestGocvFindingF1(t *testing.T) {
	mk := func(id uint64, s, e string) *Region {
		r := &Region{meta: &metapb.Region{Id: id, StartKey: []byte(s), EndKey: []byte(e), RegionEpoch: &metapb.RegionEpoch{}}}
		r.setStore(&regionStore{})
		return r
	}
	cached := []*Region{mk(1, "a", "b"), mk(3, "x", "")} // [a,b) and [x,+inf) are in the cache
	m := newBatchLocateRegionMerger(cached, 4)
	m.appendRegion(mk(2, "b", "c")) // [b,c) was loaded from PD
	locs := m.build()
	found := false
	for _, l := range locs {
		if string(l.StartKey) == "x" && len(l.EndKey) == 0 {
			found = true
		}
	}
	if !found {
		t.Fatalf("cached region [x,+inf) is missing from the merged locations: %v", locs)
	}
}
