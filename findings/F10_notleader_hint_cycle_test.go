// Replay of finding F10 (C10) on the real code: run with
//   cd /repo/internal/locate && go test -overlay <overlay mapping zz_f10_test.go to this file> -vet=off -count=1 -run TestF10NotLeaderPingPong .
// Before the fix the request is sent 5000 times in ~40 ms with 0 ms of back-off (the experiment stops it); after the fix every step of
// the hint cycle pays a regionScheduling back-off and the send ends when the budget is spent.

package locate

import (
	"context"
	"testing"
	"time"

	"github.com/pingcap/kvproto/pkg/errorpb"
	"github.com/pingcap/kvproto/pkg/kvrpcpb"
	"github.com/pingcap/kvproto/pkg/metapb"
	"github.com/tikv/client-go/v2/config/retry"
	"github.com/tikv/client-go/v2/internal/apicodec"
	"github.com/tikv/client-go/v2/internal/mockstore/mocktikv"
	"github.com/tikv/client-go/v2/oracle"
	"github.com/tikv/client-go/v2/tikvrpc"
)

// Every store answers NotLeader and names the next peer as the leader. The property (C10) demands that the send ends
// after a bounded number of attempts or pays back-off; here we count the sends made without any back-off sleep.
func TestF10NotLeaderPingPong(t *testing.T) {
	mvccStore := mocktikv.MustNewMVCCStore()
	defer mvccStore.Close()
	cluster := mocktikv.NewCluster(mvccStore)
	storeIDs, peerIDs, regionID, _ := mocktikv.BootstrapWithMultiStores(cluster, 3)
	pdCli := &CodecPDClient{mocktikv.NewPDClient(cluster), apicodec.NewCodecV1(apicodec.ModeTxn)}
	cache := NewRegionCache(pdCli)
	defer cache.Close()
	bo := retry.NewBackofferWithVars(context.Background(), 20000, nil)
	sender := NewRegionRequestSender(cache, nil, oracle.NoopReadTSValidator{})
	addrToIdx := map[string]int{}
	for i, id := range storeIDs {
		addrToIdx[cluster.GetStore(id).Address] = i
	}
	const limit = 5000
	sends := 0
	sender.client = &fnClient{fn: func(ctx context.Context, addr string, req *tikvrpc.Request, timeout time.Duration) (*tikvrpc.Response, error) {
		sends++
		if sends >= limit {
			// stop the experiment: answer genuinely
			return &tikvrpc.Response{Resp: &kvrpcpb.GetResponse{Value: []byte("v")}}, nil
		}
		i := addrToIdx[addr]
		next := (i + 1) % 2 // ping-pong between the first two peers
		return &tikvrpc.Response{Resp: &kvrpcpb.GetResponse{RegionError: &errorpb.Error{NotLeader: &errorpb.NotLeader{
			RegionId: regionID, Leader: &metapb.Peer{Id: peerIDs[next], StoreId: storeIDs[next]}}}}}, nil
	}}
	loc, err := cache.LocateRegionByID(bo, regionID)
	if err != nil {
		t.Fatal(err)
	}
	req := tikvrpc.NewRequest(tikvrpc.CmdGet, &kvrpcpb.GetRequest{Key: []byte("k")}, kvrpcpb.Context{})
	start := time.Now()
	resp, _, _, err := sender.SendReqCtx(bo, req, loc.Region, time.Second, tikvrpc.TiKV)
	t.Logf("sends=%d totalSleep=%dms elapsed=%v err=%v resp=%v", sends, bo.GetTotalSleep(), time.Since(start), err, resp != nil)
	if sends >= limit && bo.GetTotalSleep() == 0 {
		t.Fatalf("request was sent %d times without any back-off: unbounded retry", sends)
	}
}
