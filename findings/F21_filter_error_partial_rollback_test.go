// Replay of finding F21 (C06) on the real code (go test -overlay, package tikv, -run TestF21): before the fix a KVFilter error in the middle of
// initKeysAndMutations made Commit roll back only the keys collected before the failing key; the locks on the later keys were left.

package tikv

import (
	"bytes"
	"context"
	"errors"
	"math"
	"testing"
	"time"

	"github.com/stretchr/testify/require"
	"github.com/tikv/client-go/v2/kv"
	"github.com/tikv/client-go/v2/testutils"
	"github.com/tikv/client-go/v2/txnkv/txnlock"
)

func f21NewStore(t *testing.T, hijack func(Client) Client) *KVStore {
	client, cluster, pdClient, err := testutils.NewMockTiKV("", nil)
	require.NoError(t, err)
	testutils.BootstrapWithMultiRegions(cluster, []byte("h"), []byte("p"))
	store, err := NewTestTiKVStore(client, pdClient, hijack, nil, 0)
	require.NoError(t, err)
	return store
}

func f21LeftLocks(t *testing.T, store *KVStore, wait time.Duration) []*txnlock.Lock {
	var locks []*txnlock.Lock
	deadline := time.Now().Add(wait)
	for {
		var err error
		locks, err = StoreProbe{KVStore: store}.ScanLocks(context.Background(), []byte{}, []byte{0xff, 0xff}, math.MaxUint64)
		require.NoError(t, err)
		if len(locks) == 0 || time.Now().After(deadline) {
			return locks
		}
		time.Sleep(20 * time.Millisecond)
	}
}

type f21Filter struct {
	unnecessary []byte
	failOn      []byte
}

func (f f21Filter) IsUnnecessaryKeyValue(key, value []byte, flags kv.KeyFlags) (bool, error) {
	if f.failOn != nil && bytes.Equal(key, f.failOn) {
		return false, errors.New("filter failure")
	}
	return f.unnecessary != nil && bytes.Equal(key, f.unnecessary), nil
}

// Suspect 2: when the KVFilter fails in the middle of initKeysAndMutations, Commit rolls back only the keys collected
// before the failing key (committer.mutations is incomplete); the locks on the keys after it are left and the
// transaction is closed (Rollback returns ErrInvalidTxn).
func TestF21FilterErrorRollsBackAllLockedKeys(t *testing.T) {
	store := f21NewStore(t, nil)
	defer func() { require.NoError(t, store.Close()) }()
	ctx := context.Background()

	txn, err := store.Begin()
	require.NoError(t, err)
	txn.SetPessimistic(true)
	txn.SetKVFilter(f21Filter{failOn: []byte("b")})
	forUpdateTS, err := store.CurrentTimestamp("global")
	require.NoError(t, err)
	require.NoError(t, txn.LockKeys(ctx, kv.NewLockCtx(forUpdateTS, kv.LockNoWait, time.Now()), []byte("a"), []byte("b"), []byte("c")))
	require.NoError(t, txn.Set([]byte("a"), []byte("va")))
	require.NoError(t, txn.Set([]byte("b"), []byte("vb")))
	require.NoError(t, txn.Set([]byte("c"), []byte("vc")))
	require.Error(t, txn.Commit(ctx))
	_ = txn.Rollback()

	left := f21LeftLocks(t, store, 3*time.Second)
	require.Empty(t, left, "locks left after a failed commit")
}
