package mocktikv

// Finding F9 (property C12), replayed on the real code: commitKey, when the transaction's lock is not on the key, looks
// the transaction's commit record up; if that lookup FAILS it executes `return err` where err is the (nil) error of the
// earlier lock decode instead of the lookup's error err1. Commit then answers "done" although it neither committed the key
// nor found it committed.
// Obligation: commitKey:ensures:committed
// Run (from /verif): go test -overlay <overlay mapping this file into /repo/internal/mockstore/mocktikv> -run TestGocvFindingF9 ./internal/mockstore/mocktikv

import "testing"

func TestGocvFindingF9(t *testing.T) {
	store, err := NewMVCCLevelDB("")
	if err != nil {
		t.Fatal(err)
	}
	defer store.Close()
	key := []byte("k")
	// a write record that cannot be decoded (what a damaged store looks like)
	if err := store.getDB("").Put(mvccEncode(key, 5), []byte{0xff}, nil); err != nil {
		t.Fatal(err)
	}
	// the transaction has no lock on the key, and whether it is committed cannot be determined
	if err := store.Commit([][]byte{key}, 10, 20); err == nil {
		t.Errorf("Commit answered success although the key was not committed and the commit record lookup failed")
	}
}
