// Replay of finding F15 (C12) on the real code (go test -overlay, package internal/mockstore/mocktikv, -run TestF15).

package mocktikv

import (
	"testing"

	"github.com/pingcap/kvproto/pkg/kvrpcpb"
)

// Reference: committing a leftover pessimistic lock changes no data.
func TestF15CommitLeftoverPessimisticLock(t *testing.T) {
	store, err := NewMVCCLevelDB("")
	if err != nil {
		t.Fatal(err)
	}
	defer store.Close()
	k := []byte("k")
	errs := store.Prewrite(&kvrpcpb.PrewriteRequest{Mutations: []*kvrpcpb.Mutation{{Op: kvrpcpb.Op_Put, Key: k, Value: []byte("old")}}, PrimaryLock: k, StartVersion: 1, LockTtl: 1000})
	for _, e := range errs {
		if e != nil {
			t.Fatal(e)
		}
	}
	if err := store.Commit([][]byte{k}, 1, 2); err != nil {
		t.Fatal(err)
	}
	resp := store.PessimisticLock(&kvrpcpb.PessimisticLockRequest{Mutations: []*kvrpcpb.Mutation{{Op: kvrpcpb.Op_PessimisticLock, Key: k}}, PrimaryLock: k, StartVersion: 10, ForUpdateTs: 12, LockTtl: 1000, WaitTimeout: -1})
	if len(resp.Errors) != 0 {
		t.Fatalf("pessimistic lock refused: %v", resp.Errors)
	}
	// the transaction commits without having prewritten k (a leftover pessimistic lock)
	if err := store.Commit([][]byte{k}, 10, 20); err != nil {
		t.Fatal(err)
	}
	v, err := store.Get(k, 30, kvrpcpb.IsolationLevel_SI, nil)
	if err != nil || string(v) != "old" {
		t.Fatalf("committing a leftover pessimistic lock changed the data: key reads %q (err %v), expected \"old\"", v, err)
	}
}
