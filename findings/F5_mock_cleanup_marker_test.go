package mocktikv

// Finding F5 (property C12), replayed on the real code: MVCCLevelDB.Cleanup of a transaction that has neither a lock nor a
// commit/rollback record on the key builds the rollback marker in a write batch and returns nil WITHOUT writing the batch.
// The marker that must make a late prewrite of that transaction fail is lost: the prewrite succeeds afterwards.
// Obligation: (*MVCCLevelDB).Cleanup:ensures:persisted
// Run (from /verif): go test -overlay <overlay mapping this file into /repo/internal/mockstore/mocktikv> -run TestGocvFindingF5 ./internal/mockstore/mocktikv

import (
	"testing"

	"github.com/pingcap/kvproto/pkg/kvrpcpb"
)

func TestGocvFindingF5(t *testing.T) {
	store, err := NewMVCCLevelDB("")
	if err != nil {
		t.Fatal(err)
	}
	defer store.Close()
	key := []byte("k")
	const startTS = 100
	// the transaction is cleaned up (rolled back) before its prewrite arrives
	if err := store.Cleanup(key, startTS, 0); err != nil {
		t.Fatal(err)
	}
	// the late prewrite must be rejected: the transaction was rolled back on this key
	errs := store.Prewrite(&kvrpcpb.PrewriteRequest{
		Mutations:    []*kvrpcpb.Mutation{{Op: kvrpcpb.Op_Put, Key: key, Value: []byte("v")}},
		PrimaryLock:  key,
		StartVersion: startTS,
		LockTtl:      1000,
	})
	if len(errs) != 1 || errs[0] == nil {
		t.Errorf("prewrite at start ts %d succeeded after Cleanup had rolled the transaction back on the key: the rollback marker was never written", startTS)
	}
	// the same through Rollback (which does write its batch) is rejected, for comparison
	key2 := []byte("k2")
	if err := store.Rollback([][]byte{key2}, startTS); err != nil {
		t.Fatal(err)
	}
	errs = store.Prewrite(&kvrpcpb.PrewriteRequest{
		Mutations:    []*kvrpcpb.Mutation{{Op: kvrpcpb.Op_Put, Key: key2, Value: []byte("v")}},
		PrimaryLock:  key2,
		StartVersion: startTS,
		LockTtl:      1000,
	})
	if len(errs) != 1 || errs[0] == nil {
		t.Errorf("control: prewrite after Rollback was not rejected either")
	}
}
