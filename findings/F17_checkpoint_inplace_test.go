// Replay of finding F17 (C07) on the real code (go test -overlay, package unionstore, -run TestF17): before the fix a value
// written before Checkpoint() and overwritten after it by a value of the SAME length was updated in place in the value log,
// so RevertToCheckpoint (which walks the log back to the checkpoint) did not restore it.

package unionstore

import (
	"context"
	"testing"
)

func TestF17CheckpointSameLengthOverwrite(t *testing.T) {
	for name, db := range map[string]*MemDB{"art": NewMemDB()} {
		if err := db.Set([]byte("k"), []byte("aaaa")); err != nil {
			t.Fatal(err)
		}
		cp := db.Checkpoint()
		if err := db.Set([]byte("k"), []byte("bbbb")); err != nil { // same length: the in-place path
			t.Fatal(err)
		}
		db.RevertToCheckpoint(cp)
		v, err := db.Get(context.Background(), []byte("k"))
		if err != nil || string(v.Value) != "aaaa" {
			t.Fatalf("%s: after RevertToCheckpoint the key reads %q (err %v), want the value at the checkpoint \"aaaa\"", name, v.Value, err)
		}
	}
}
