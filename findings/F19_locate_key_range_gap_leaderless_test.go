// Replay of known finding F19 (C09) on the real code (go test -overlay, package locate, -run TestF19): LocateKeyRange returns locations with a gap
// when PD reports a region in the middle of the range without a leader.

package locate

import (
	"bytes"
	"context"
	"testing"

	"github.com/stretchr/testify/require"
	"github.com/tikv/client-go/v2/config/retry"
	"github.com/tikv/client-go/v2/internal/apicodec"
	"github.com/tikv/client-go/v2/internal/mockstore/mocktikv"
)

// Suspect 2 (unchanged code): RegionCache.LocateKeyRange returns a result with a GAP when PD reports a region in the
// middle of the range without a leader (e.g. right after a PD restart, or during an election that PD has already
// heard of): handleRegionInfos(needLeader=true) silently drops the leaderless region from the batch, and
// LocateKeyRange appends the remaining regions as if they were contiguous. The function comment says "Regions
// without leader won't be returned", so this is documented, but a caller that splits a key range by the returned
// locations loses the keys of the dropped region without any error. (BatchLocateKeyRanges without
// WithNeedRegionHasLeaderPeer keeps such regions; if the leaderless region is the LAST one of the batch the loop
// retries until it has a leader.)
func TestF19LocateKeyRangeGapOnLeaderlessRegion(t *testing.T) {
	mvccStore := mocktikv.MustNewMVCCStore()
	defer mvccStore.Close()
	cluster := mocktikv.NewCluster(mvccStore)
	_, regionIDs, _ := mocktikv.BootstrapWithMultiRegions(cluster, []byte("c"), []byte("m"))
	cluster.GiveUpLeader(regionIDs[1])
	pdCli := &CodecPDClient{mocktikv.NewPDClient(cluster), apicodec.NewCodecV1(apicodec.ModeTxn)}
	cache := NewRegionCache(pdCli)
	defer cache.Close()
	bo := retry.NewBackofferWithVars(context.Background(), 20000, nil)

	locs, err := cache.LocateKeyRange(bo, []byte("a"), []byte("x"))
	require.NoError(t, err)
	for _, l := range locs {
		t.Logf("region %d [%q, %q)", l.Region.GetID(), l.StartKey, l.EndKey)
	}
	for i := 1; i < len(locs); i++ {
		require.True(t, bytes.Equal(locs[i-1].EndKey, locs[i].StartKey),
			"gap between [%q,%q) and [%q,%q)", locs[i-1].StartKey, locs[i-1].EndKey, locs[i].StartKey, locs[i].EndKey)
	}
}
