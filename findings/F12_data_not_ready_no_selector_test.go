// Replay of finding F12 (C10) on the real code (go test -overlay, package internal/locate, -run TestF12DataNotReadyNoSelector): a TiFlash endpoint (no replica
// selector) that keeps answering DataIsNotReady. Before the fix: 5000 sends, 0 ms back-off; after: 88 sends, budget spent, "region unavailable".

package locate

import (
	"context"
	"testing"
	"time"

	"github.com/pingcap/kvproto/pkg/errorpb"
	"github.com/pingcap/kvproto/pkg/kvrpcpb"
	"github.com/pingcap/kvproto/pkg/metapb"
	"github.com/tikv/client-go/v2/config/retry"
	"github.com/tikv/client-go/v2/internal/apicodec"
	"github.com/tikv/client-go/v2/internal/mockstore/mocktikv"
	"github.com/tikv/client-go/v2/oracle"
	"github.com/tikv/client-go/v2/tikvrpc"
)

// No replica selector (TiFlash endpoint): the store keeps answering NotLeader with a leader hint.
func TestF12DataNotReadyNoSelector(t *testing.T) {
	mvccStore := mocktikv.MustNewMVCCStore()
	defer mvccStore.Close()
	cluster := mocktikv.NewCluster(mvccStore)
	storeIDs, peerIDs, regionID, _ := mocktikv.BootstrapWithMultiStores(cluster, 3)
	tiflashStore, tiflashPeer := cluster.AllocID(), cluster.AllocID()
	cluster.AddStore(tiflashStore, "tiflash1", &metapb.StoreLabel{Key: "engine", Value: "tiflash"})
	cluster.AddPeer(regionID, tiflashStore, tiflashPeer)
	pdCli := &CodecPDClient{mocktikv.NewPDClient(cluster), apicodec.NewCodecV1(apicodec.ModeTxn)}
	cache := NewRegionCache(pdCli)
	defer cache.Close()
	bo := retry.NewBackofferWithVars(context.Background(), 20000, nil)
	sender := NewRegionRequestSender(cache, nil, oracle.NoopReadTSValidator{})
	const limit = 5000
	sends := 0
	sender.client = &fnClient{fn: func(ctx context.Context, addr string, req *tikvrpc.Request, timeout time.Duration) (*tikvrpc.Response, error) {
		sends++
		if sends >= limit {
			return &tikvrpc.Response{Resp: &kvrpcpb.GetResponse{Value: []byte("v")}}, nil
		}
		_, _ = peerIDs, storeIDs
		return &tikvrpc.Response{Resp: &kvrpcpb.GetResponse{RegionError: &errorpb.Error{DataIsNotReady: &errorpb.DataIsNotReady{RegionId: regionID}}}}, nil
	}}
	loc, err := cache.LocateRegionByID(bo, regionID)
	if err != nil {
		t.Fatal(err)
	}
	req := tikvrpc.NewRequest(tikvrpc.CmdGet, &kvrpcpb.GetRequest{Key: []byte("k")}, kvrpcpb.Context{})
	start := time.Now()
	resp, _, _, err := sender.SendReqCtx(bo, req, loc.Region, time.Second, tikvrpc.TiFlash)
	t.Logf("sends=%d totalSleep=%dms elapsed=%v err=%v resp=%v", sends, bo.GetTotalSleep(), time.Since(start), err, resp != nil)
	if sends >= limit && bo.GetTotalSleep() == 0 {
		t.Fatalf("request was sent %d times without any back-off: unbounded retry", sends)
	}
}
