package locate

// Finding F4 (properties C09/C05), replayed on the real code: LocateEndKey("") - "the region holding the greatest key",
// used by reverse scans with an unbounded upper end - returns the FIRST region of the key space when there is more
// than one region, because loadRegion asks PD for the region containing "" and SearchByKey/ContainsByEnd only accept a
// region unbounded above once it is cached.
// Obligation: RegionCache.loadRegion:ensures:found, input class isEndKey && key == "".

import (
	"context"
	"testing"

	"github.com/tikv/client-go/v2/config/retry"
	"github.com/tikv/client-go/v2/internal/apicodec"
	"github.com/tikv/client-go/v2/internal/mockstore/mocktikv"
)

func TestGocvFindingF4(t *testing.T) {
	mvcc := mocktikv.MustNewMVCCStore()
	defer mvcc.Close()
	cluster := mocktikv.NewCluster(mvcc)
	mocktikv.BootstrapWithMultiRegions(cluster, []byte("m")) // two regions: [-inf, m) and [m, +inf)
	cache := NewRegionCache(&CodecPDClient{mocktikv.NewPDClient(cluster), apicodec.NewCodecV1(apicodec.ModeTxn)})
	defer cache.Close()
	bo := retry.NewBackofferWithVars(context.Background(), 5000, nil)
	loc, err := cache.LocateEndKey(bo, []byte{})
	if err != nil {
		t.Fatal(err)
	}
	if len(loc.EndKey) != 0 {
		t.Fatalf("LocateEndKey(\"\") returned [%q, %q): it does not hold the greatest key (its end is bounded)", loc.StartKey, loc.EndKey)
	}
}
