package tikv

// Finding F2 (property C16), replayed on the real code: the range of flushed keys is tracked as
// [pipelinedStart, pipelinedEnd] with pipelinedEnd = the LARGEST flushed key (inclusive), but resolveFlushedLocks hands
// it to rangetask.Runner.RunOnRange as the half-open range [start, end). A pipelined transaction whose flushed keys are
// all the same key (start == end) therefore resolves nothing at rollback ("empty range task executed. ignored"), and in
// general the region that begins exactly at the largest flushed key is never visited.
// Obligation: (*twoPhaseCommitter).resolveFlushedLocks:assert@call:RunOnRange.covers
// Run (from /verif): go test -overlay <overlay mapping this file into /repo/tikv> -run TestGocvFindingF2 ./tikv

import (
	"context"
	"sync/atomic"
	"testing"
	"time"

	"github.com/pingcap/kvproto/pkg/kvrpcpb"
	"github.com/tikv/client-go/v2/internal/mockstore/mocktikv"
	"github.com/tikv/client-go/v2/testutils"
	"github.com/tikv/client-go/v2/tikvrpc"
)

type f2Client struct {
	Client
	flushes  int32
	resolves int32
}

func (c *f2Client) SendRequest(ctx context.Context, addr string, req *tikvrpc.Request, timeout time.Duration) (*tikvrpc.Response, error) {
	switch req.Type {
	case tikvrpc.CmdFlush:
		atomic.AddInt32(&c.flushes, 1)
		return &tikvrpc.Response{Resp: &kvrpcpb.FlushResponse{}}, nil
	case tikvrpc.CmdResolveLock:
		atomic.AddInt32(&c.resolves, 1)
		return &tikvrpc.Response{Resp: &kvrpcpb.ResolveLockResponse{}}, nil
	case tikvrpc.CmdBroadcastTxnStatus:
		return &tikvrpc.Response{Resp: &kvrpcpb.BroadcastTxnStatusResponse{}}, nil
	}
	return c.Client.SendRequest(ctx, addr, req, timeout)
}

func TestGocvFindingF2(t *testing.T) {
	client, cluster, pdClient, err := testutils.NewMockTiKV("", nil)
	if err != nil {
		t.Fatal(err)
	}
	mocktikv.BootstrapWithSingleStore(cluster)
	fc := &f2Client{Client: client}
	store, err := NewTestTiKVStore(fc, pdClient, nil, nil, 0)
	if err != nil {
		t.Fatal(err)
	}
	defer store.Close()

	txn, err := store.Begin(WithDefaultPipelinedTxn())
	if err != nil {
		t.Fatal(err)
	}
	if err := txn.Set([]byte("k"), []byte("v")); err != nil {
		t.Fatal(err)
	}
	if _, err := txn.GetMemBuffer().Flush(true); err != nil {
		t.Fatal(err)
	}
	if err := txn.GetMemBuffer().FlushWait(); err != nil {
		t.Fatal(err)
	}
	if atomic.LoadInt32(&fc.flushes) == 0 {
		t.Fatal("no flush request was sent")
	}
	if err := txn.Rollback(); err != nil {
		t.Fatal(err)
	}
	// the resolve runs in the background
	deadline := time.Now().Add(3 * time.Second)
	for time.Now().Before(deadline) && atomic.LoadInt32(&fc.resolves) == 0 {
		time.Sleep(20 * time.Millisecond)
	}
	if atomic.LoadInt32(&fc.resolves) == 0 {
		t.Errorf("rollback of a pipelined transaction that flushed the single key %q sent no ResolveLock request: its flushed lock is left behind", "k")
	}
}
