package transaction

// Finding F8 (property C07), replayed on the real code: BufferBatchGetter.BatchGet (and its twin
// BufferSnapshotBatchGetter.BatchGet) removes a deleted key's tombstone from the buffer result *while* it is still
// walking the key list. When the same key occurs again later in `keys` it is no longer found in the buffer result, is
// handed to the snapshot, and the snapshot's value comes back: a key the transaction has deleted is visible again.
// Obligation: (*BufferBatchGetter).BatchGet:invariant-pres:loop1.shrunk
// Run (from /verif): go test -overlay <overlay mapping this file into /repo/txnkv/transaction> -run TestGocvFindingF8 ./txnkv/transaction

import (
	"context"
	"testing"

	"github.com/tikv/client-go/v2/kv"
)

func TestGocvFindingF8(t *testing.T) {
	k := []byte("k")
	snap := newMockStore()
	snap.Set(k, kv.NewValueEntry([]byte("old"), 1))
	buffer := newMockStore()
	buffer.Delete(k) // the transaction deleted k

	for _, name := range []string{"BufferBatchGetter", "BufferSnapshotBatchGetter"} {
		var res map[string]kv.ValueEntry
		var err error
		if name == "BufferBatchGetter" {
			res, err = NewBufferBatchGetter(buffer, snap).BatchGet(context.Background(), [][]byte{k, k})
		} else {
			res, err = NewBufferSnapshotBatchGetter(buffer, snap).BatchGet(context.Background(), [][]byte{k, k})
		}
		if err != nil {
			t.Fatal(err)
		}
		if v, ok := res[string(k)]; ok {
			t.Errorf("%s: deleted key is visible again through BatchGet([k, k]): %q", name, v.Value)
		}
	}
}
