package tikv

// Finding F6 (property C05), replayed on the real code: KVSnapshot.SetSnapshotTS drops the result cache and the
// "resolved locks" hints but keeps the "committed locks" hints. Such a hint tells the store that the lock of transaction T
// may be read through because T committed at or before the snapshot timestamp. After the snapshot timestamp has been
// moved to an earlier value the hint is no longer true (T committed later than the new timestamp), yet every further read
// request still carries it - the store would return a version committed after the snapshot.
// Obligation: (*KVSnapshot).SetSnapshotTS:ensures:hints
// Run (from /verif): go test -overlay <overlay mapping this file into /repo/tikv> -run TestGocvFindingF6 ./tikv

import (
	"context"
	"sync"
	"testing"
	"time"

	"github.com/tikv/client-go/v2/internal/mockstore/mocktikv"
	"github.com/tikv/client-go/v2/oracle"
	"github.com/tikv/client-go/v2/testutils"
	"github.com/tikv/client-go/v2/tikvrpc"
	"github.com/tikv/client-go/v2/txnkv/transaction"
)

type f6Client struct {
	Client
	mu        sync.Mutex
	committed [][]uint64 // CommittedLocks of every Get request, in order
}

func (c *f6Client) SendRequest(ctx context.Context, addr string, req *tikvrpc.Request, timeout time.Duration) (*tikvrpc.Response, error) {
	if req.Type == tikvrpc.CmdGet {
		c.mu.Lock()
		c.committed = append(c.committed, append([]uint64(nil), req.Context.CommittedLocks...))
		c.mu.Unlock()
	}
	return c.Client.SendRequest(ctx, addr, req, timeout)
}

func TestGocvFindingF6(t *testing.T) {
	client, cluster, pdClient, err := testutils.NewMockTiKV("", nil)
	if err != nil {
		t.Fatal(err)
	}
	mocktikv.BootstrapWithSingleStore(cluster)
	fc := &f6Client{Client: client}
	store, err := NewTestTiKVStore(fc, pdClient, nil, nil, 0)
	if err != nil {
		t.Fatal(err)
	}
	defer store.Close()
	ctx := context.Background()

	// a timestamp before T starts
	early, err := store.GetOracle().GetTimestamp(ctx, &oracle.Option{TxnScope: oracle.GlobalTxnScope})
	if err != nil {
		t.Fatal(err)
	}
	_ = early
	// T writes k1 (primary) and k2, prewrites both and commits only the primary: k2 keeps T's lock
	txn, err := store.Begin()
	if err != nil {
		t.Fatal(err)
	}
	if err := txn.Set([]byte("k1"), []byte("v1")); err != nil {
		t.Fatal(err)
	}
	if err := txn.Set([]byte("k2"), []byte("v2")); err != nil {
		t.Fatal(err)
	}
	committer, err := transaction.TxnProbe{KVTxn: txn}.NewCommitter(1)
	if err != nil {
		t.Fatal(err)
	}
	committer.SetLockTTL(1) // the lock is expired as soon as anybody looks at it
	if err := committer.PrewriteAllMutations(ctx); err != nil {
		t.Fatal(err)
	}
	between, err := store.GetOracle().GetTimestamp(ctx, &oracle.Option{TxnScope: oracle.GlobalTxnScope}) // after T's start, before T's commit
	if err != nil {
		t.Fatal(err)
	}
	commitTS, err := store.GetOracle().GetTimestamp(ctx, &oracle.Option{TxnScope: oracle.GlobalTxnScope})
	if err != nil {
		t.Fatal(err)
	}
	committer.SetCommitTS(commitTS)
	if err := committer.CommitMutations(ctx); err != nil { // primary only
		t.Fatal(err)
	}

	// a snapshot after T's commit meets T's lock on k2, learns that T is committed and remembers "read through T's locks"
	late, err := store.GetOracle().GetTimestamp(ctx, &oracle.Option{TxnScope: oracle.GlobalTxnScope})
	if err != nil {
		t.Fatal(err)
	}
	snap := store.GetSnapshot(late)
	if _, err := snap.Get(ctx, []byte("k2")); err != nil {
		t.Fatal(err)
	}
	// move the snapshot to a timestamp at which T is NOT committed yet
	snap.SetSnapshotTS(between)
	fc.mu.Lock()
	fc.committed = nil
	fc.mu.Unlock()
	_, _ = snap.Get(ctx, []byte("other"))
	fc.mu.Lock()
	defer fc.mu.Unlock()
	if len(fc.committed) == 0 {
		t.Fatal("no Get request observed")
	}
	for _, hint := range fc.committed {
		for _, ts := range hint {
			if ts == txn.StartTS() {
				t.Errorf("after SetSnapshotTS(%d) a read still tells the store to read through the locks of transaction %d, which committed at %d (> %d)", between, ts, commitTS, between)
			}
		}
	}
}
