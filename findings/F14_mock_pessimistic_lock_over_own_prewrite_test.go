// Replay of finding F14 (C12) on the real code (go test -overlay, package internal/mockstore/mocktikv, -run TestF14).

package mocktikv

import (
	"testing"

	"github.com/pingcap/kvproto/pkg/kvrpcpb"
)

// Reference (TiKV, as named by property C12): a pessimistic lock request over the transaction's own PREWRITE lock is refused.
func TestF14PessimisticLockOverOwnPrewriteLock(t *testing.T) {
	store, err := NewMVCCLevelDB("")
	if err != nil {
		t.Fatal(err)
	}
	defer store.Close()
	k := []byte("k")
	errs := store.Prewrite(&kvrpcpb.PrewriteRequest{Mutations: []*kvrpcpb.Mutation{{Op: kvrpcpb.Op_Put, Key: k, Value: []byte("v")}}, PrimaryLock: k, StartVersion: 10, LockTtl: 1000})
	for _, e := range errs {
		if e != nil {
			t.Fatal(e)
		}
	}
	resp := store.PessimisticLock(&kvrpcpb.PessimisticLockRequest{Mutations: []*kvrpcpb.Mutation{{Op: kvrpcpb.Op_PessimisticLock, Key: k}}, PrimaryLock: k, StartVersion: 10, ForUpdateTs: 12, LockTtl: 1000, WaitTimeout: -1})
	if len(resp.Errors) == 0 {
		// what happened to the prewritten value?
		if err := store.Commit([][]byte{k}, 10, 20); err != nil {
			t.Fatal(err)
		}
		v, err := store.Get(k, 30, kvrpcpb.IsolationLevel_SI, nil)
		t.Fatalf("pessimistic lock over the transaction's own prewrite lock was granted; after commit the key reads %q (err %v), prewritten value was \"v\"", v, err)
	}
}

