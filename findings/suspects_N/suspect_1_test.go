package locate

import (
	"context"
	"testing"

	"github.com/stretchr/testify/require"
	"github.com/tikv/client-go/v2/config/retry"
	"github.com/tikv/client-go/v2/internal/apicodec"
	"github.com/tikv/client-go/v2/internal/mockstore/mocktikv"
)

// Suspect 1 (unchanged code): RegionCache.ListRegionIDsInKeyRange with an unbounded end key ("" = +inf, the
// convention of every other range API of the cache) does not list the regions up to the end of the key space:
//   - start in the first region: only the first region is returned (KeyLocation.Contains("") is true for the region
//     whose start key is "");
//   - start in a later region: the walk runs off the last region (its EndKey "" becomes the next start key) and
//     appends the FIRST region of the key space after the last one.
//
// Expected for ("", ""): all regions; for ("n", ""): [r2, r3].
func TestSuspectListRegionIDsUnboundedEnd(t *testing.T) {
	mvccStore := mocktikv.MustNewMVCCStore()
	defer mvccStore.Close()
	cluster := mocktikv.NewCluster(mvccStore)
	_, regionIDs, _ := mocktikv.BootstrapWithMultiRegions(cluster, []byte("m"), []byte("t"))
	pdCli := &CodecPDClient{mocktikv.NewPDClient(cluster), apicodec.NewCodecV1(apicodec.ModeTxn)}
	cache := NewRegionCache(pdCli)
	defer cache.Close()
	bo := retry.NewBackofferWithVars(context.Background(), 20000, nil)

	ids, err := cache.ListRegionIDsInKeyRange(bo, []byte(""), []byte(""))
	require.NoError(t, err)
	t.Logf("ListRegionIDsInKeyRange(\"\", \"\") = %v, all regions = %v", ids, regionIDs)
	ids2, err := cache.ListRegionIDsInKeyRange(bo, []byte("n"), []byte(""))
	require.NoError(t, err)
	t.Logf("ListRegionIDsInKeyRange(\"n\", \"\") = %v, expected %v", ids2, regionIDs[1:])

	// for comparison: the other range APIs treat "" as +inf.
	locs, err := cache.LocateKeyRange(bo, []byte(""), []byte(""))
	require.NoError(t, err)
	require.Len(t, locs, 3)

	require.Equal(t, regionIDs, ids, "unbounded range from the start of the key space")
	require.Equal(t, regionIDs[1:], ids2, "unbounded range from a key in the second region")
}
