package locate

import (
	"context"
	"fmt"
	"sync/atomic"
	"testing"

	"github.com/pingcap/kvproto/pkg/metapb"
	"github.com/stretchr/testify/require"
	"github.com/tikv/client-go/v2/config/retry"
	"github.com/tikv/client-go/v2/internal/apicodec"
	"github.com/tikv/client-go/v2/internal/mockstore/mocktikv"
)

// Suspect 3 (unchanged code, minor): Region.switchWorkLeaderToPeer refreshes the store-epoch snapshot with the
// TiKV-only ACCESS index of the new leader (newRegionStore.storeEpochs[leaderIdx] = stores[leaderIdx].epoch), but
// stores/storeEpochs are indexed by the position in meta.Peers (all engines). When a TiFlash peer precedes the TiKV
// peers, the snapshot of a DIFFERENT store is refreshed (hiding that store's failure epoch from this region) and the
// new leader's own snapshot is left untouched.
func TestSuspectSwitchLeaderRefreshesWrongStoreEpoch(t *testing.T) {
	mvccStore := mocktikv.MustNewMVCCStore()
	defer mvccStore.Close()
	cluster := mocktikv.NewCluster(mvccStore)
	storeIDs, peerIDs, regionID, _ := mocktikv.BootstrapWithMultiStores(cluster, 3)
	// the FIRST peer of the region lives on a TiFlash store; the leader is the second peer.
	cluster.UpdateStoreAddr(storeIDs[0], fmt.Sprintf("store%d", storeIDs[0]), &metapb.StoreLabel{Key: "engine", Value: "tiflash"})
	cluster.ChangeLeader(regionID, peerIDs[1])
	pdCli := &CodecPDClient{mocktikv.NewPDClient(cluster), apicodec.NewCodecV1(apicodec.ModeTxn)}
	cache := NewRegionCache(pdCli)
	defer cache.Close()
	bo := retry.NewBackofferWithVars(context.Background(), 20000, nil)

	loc, err := cache.LocateRegionByID(bo, regionID)
	require.NoError(t, err)
	r := cache.GetCachedRegionWithRLock(loc.Region)
	rs := r.getStore()
	require.Equal(t, []int{1, 2}, rs.accessIndex[tiKVOnly])
	require.Equal(t, storeIDs[1], r.GetLeaderStoreID())

	// the second store (global index 1, the current leader) had a failure: its epoch was bumped, this region's
	// snapshot of it is now stale and the region should be refilled because of that.
	atomic.AddUint32(&rs.stores[1].epoch, 1)
	require.NotEqual(t, atomic.LoadUint32(&rs.stores[1].epoch), rs.storeEpochs[1])

	// a NotLeader hint names the peer on the third store (global index 2, access index 1).
	require.True(t, r.switchWorkLeaderToPeer(&metapb.Peer{Id: peerIDs[2], StoreId: storeIDs[2]}))
	rs = r.getStore()
	require.Equal(t, storeIDs[2], r.GetLeaderStoreID())
	// expected: the snapshot of store index 1 is still stale (nothing confirmed that store), observed: it was refreshed.
	require.NotEqual(t, atomic.LoadUint32(&rs.stores[1].epoch), rs.storeEpochs[1],
		"switching the leader to the store at global index 2 refreshed the epoch snapshot of the store at global index 1")
}
